import SedpackProofs.TreeBasic
/-! `merge_spec`: the recursive merge returns an exact info, touches nothing outside its directory,
keeps every list's shard files, and re-establishes the store invariants — by induction on the
recursion, for every tree depth. -/
namespace Sedpack.Tree

def filesAt (fs : FS) (x : Dir) : List Shard := ((fs x).map (·.files)).getD []

structure Pre (B : Nat) (fs : FS) (e : Dir) (us : List Kid) : Prop where
  wf : WF fs
  depth : DepthOK fs B
  ups : ∀ u ∈ us, e <+: u.dir ∧ u.dir.length ≤ B
  len : e.length ≤ B

/-- `x` was reachable, in the store `fs`, from some directory on the path from `e` down to one of the updates -/
def OnPath (fs : FS) (e : Dir) (us : List Kid) (x : Dir) : Prop :=
  ∃ u ∈ us, ∃ a, e <+: a ∧ a <+: u.dir ∧ Reaches fs a x

structure Post (H : SList → Nat) (B : Nat) (fs : FS) (e : Dir) (us : List Kid) (fs' : FS) (k : Kid) : Prop where
  dir : k.dir = e
  reachOld : ∀ x, Reaches fs e x → Reaches fs' e x
  reachNew : ∀ x, Reaches fs' e x → Reaches fs e x ∨ OnPath fs e us x
  existNew : ∀ x, fs' x ≠ none → fs x ≠ none ∨ Reaches fs' e x
  reachUps : ∀ u ∈ us, Reaches fs' e u.dir
  kidsOrder : ∃ l', fs' e = some l' ∧ l'.kids.map (·.dir) =
      (groupBy e.length (us.filter (fun u => u.dir.length > e.length) ++ ((fs e).getD {}).kids)).map (fun g => e ++ [g.1])
  frame : ∀ x, ¬ e <+: x → fs' x = fs x
  exact : Exact H fs' k
  wf : WF fs'
  depth : DepthOK fs' B
  files : ∀ x, filesAt fs' x = filesAt fs x

/-- the fold over the groups, as a function of its own -/
def foldMerge (M : FS → Dir → List Kid → FS × Kid) (d : Dir) :
    List (Nat × List Kid) → FS × List Kid → FS × List Kid
  | [], acc => acc
  | g :: gs, acc =>
    let m := M acc.1 (d ++ [g.1]) g.2
    foldMerge M d gs (m.1, acc.2 ++ [m.2])

theorem foldl_eq_foldMerge (M : FS → Dir → List Kid → FS × Kid) (d : Dir) :
    ∀ (gs : List (Nat × List Kid)) (acc : FS × List Kid),
      gs.foldl (fun (acc : FS × List Kid) g => let m := M acc.1 (d ++ [g.1]) g.2; (m.1, acc.2 ++ [m.2])) acc
        = foldMerge M d gs acc := by
  intro gs
  induction gs with
  | nil => intro acc; rfl
  | cons g gs ih => intro acc; simp only [List.foldl_cons, foldMerge]; exact ih _

theorem merge_succ (H : SList → Nat) (fuel : Nat) (fs : FS) (d : Dir) (updates : List Kid) :
    merge H (fuel+1) fs d updates =
      writeConfig H
        (foldMerge (merge H fuel) d (groupBy d.length
          (updates.filter (fun u => u.dir.length > d.length) ++ ((fs d).getD {}).kids)) (fs, [])).1 d
        { ((fs d).getD {}) with
          n := (((fs d).getD {}).n - sumN ((fs d).getD {}).kids) +
            sumN (foldMerge (merge H fuel) d (groupBy d.length
              (updates.filter (fun u => u.dir.length > d.length) ++ ((fs d).getD {}).kids)) (fs, [])).2,
          kids := (foldMerge (merge H fuel) d (groupBy d.length
              (updates.filter (fun u => u.dir.length > d.length) ++ ((fs d).getD {}).kids)) (fs, [])).2 } := by
  simp only [merge, foldl_eq_foldMerge]

/-- invariant of the fold, relative to the store `fs` it started from and the keys done so far -/
structure FoldInv (H : SList → Nat) (B : Nat) (fs : FS) (d : Dir) (doneG : List (Nat × List Kid)) (acc : FS × List Kid) : Prop where
  wf : WF acc.1
  depth : DepthOK acc.1 B
  frame : ∀ x, (∀ g ∈ doneG.map (·.1), ¬ (d ++ [g]) <+: x) → acc.1 x = fs x
  dirs : acc.2.map (·.dir) = (doneG.map (·.1)).map (fun g => d ++ [g])
  reach : ∀ p ∈ doneG, (∀ x, Reaches fs (d ++ [p.1]) x → Reaches acc.1 (d ++ [p.1]) x) ∧
      (∀ u ∈ p.2, Reaches acc.1 (d ++ [p.1]) u.dir)
  reachNew : ∀ p ∈ doneG, ∀ x, Reaches acc.1 (d ++ [p.1]) x → Reaches fs (d ++ [p.1]) x ∨ OnPath fs (d ++ [p.1]) p.2 x
  existNew : ∀ x, acc.1 x ≠ none → fs x ≠ none ∨ ∃ p ∈ doneG, Reaches acc.1 (d ++ [p.1]) x
  exact : ∀ k ∈ acc.2, Exact H acc.1 k
  files : ∀ x, filesAt acc.1 x = filesAt fs x

theorem foldMerge_spec (H : SList → Nat) (B : Nat) (M : FS → Dir → List Kid → FS × Kid) (fs : FS) (d : Dir)
    (hwf0 : WF fs)
    (hM : ∀ fs e us, e.length = d.length + 1 → Pre B fs e us → Post H B fs e us (M fs e us).1 (M fs e us).2) :
    ∀ (gs : List (Nat × List Kid)) (doneG : List (Nat × List Kid)) (acc : FS × List Kid),
      ((doneG ++ gs).map (·.1)).Nodup →
      (∀ g us, (g, us) ∈ gs → ∀ u ∈ us, (d ++ [g]) <+: u.dir ∧ u.dir.length ≤ B) →
      d.length + 1 ≤ B ∨ gs = [] →
      FoldInv H B fs d doneG acc →
      FoldInv H B fs d (doneG ++ gs) (foldMerge M d gs acc) := by
  intro gs
  induction gs with
  | nil => intro doneG acc _ _ _ h; simpa [foldMerge] using h
  | cons g gs ih =>
    intro doneG acc hnd hups hlen hinv
    obtain ⟨key, us⟩ := g
    simp only [foldMerge]
    have hB : d.length + 1 ≤ B := by
      rcases hlen with h | h
      · exact h
      · simp at h
    have hpre : Pre B acc.1 (d ++ [key]) us :=
      ⟨hinv.wf, hinv.depth, fun u hu => hups key us (by simp) u hu, by simp; omega⟩
    have hpost := hM acc.1 (d ++ [key]) us (by simp) hpre
    have hkey_notin : key ∉ doneG.map (·.1) := by
      intro hk
      simp only [List.map_append, List.map_cons] at hnd
      have := (List.nodup_append.mp hnd).2.2 key hk key (by simp)
      exact this rfl
    -- below d ++ [key] the store is still the original one
    have hsame : ∀ y, (d ++ [key]) <+: y → acc.1 y = fs y := by
      intro y hy
      apply hinv.frame
      intro g hg hgy
      have hne : g ≠ key := fun h => hkey_notin (h ▸ hg)
      exact prefix_snoc_ne hne hgy hy
    have hnew : FoldInv H B fs d (doneG ++ [(key, us)])
        ((M acc.1 (d ++ [key]) us).1, acc.2 ++ [(M acc.1 (d ++ [key]) us).2]) := by
      refine ⟨hpost.wf, hpost.depth, ?_, ?_, ?_, ?_, ?_, ?_, ?_⟩
      · intro x hx
        have h1 : ¬ (d ++ [key]) <+: x := hx key (by simp)
        rw [hpost.frame x h1]
        exact hinv.frame x (fun g hg => hx g (by simp only [List.map_append, List.mem_append]; left; exact hg))
      · simp only [List.map_append, List.map_cons, List.map_nil, hinv.dirs, hpost.dir]
      · intro p hp
        simp only [List.mem_append, List.mem_singleton] at hp
        rcases hp with hp | hp
        · -- an earlier group: its sub-tree is disjoint from the one just merged
          obtain ⟨h1, h2⟩ := hinv.reach p hp
          have hne : p.1 ≠ key := fun h => hkey_notin (h ▸ List.mem_map.mpr ⟨p, hp, rfl⟩)
          have hfr : ∀ y, (d ++ [p.1]) <+: y → (M acc.1 (d ++ [key]) us).1 y = acc.1 y :=
            fun y hy => hpost.frame y (prefix_snoc_ne hne hy)
          exact ⟨fun x hx => (h1 x hx).frame hinv.wf hfr, fun u hu => (h2 u hu).frame hinv.wf hfr⟩
        · subst hp
          exact ⟨fun x hx => hpost.reachOld x (hx.frame hwf0 hsame), hpost.reachUps⟩
      · intro p hp x hx
        simp only [List.mem_append, List.mem_singleton] at hp
        rcases hp with hp | hp
        · -- an earlier group: the store below it has not been touched by this merge
          have hne : p.1 ≠ key := fun h => hkey_notin (h ▸ List.mem_map.mpr ⟨p, hp, rfl⟩)
          have hfr : ∀ y, (d ++ [p.1]) <+: y → acc.1 y = (M acc.1 (d ++ [key]) us).1 y :=
            fun y hy => (hpost.frame y (prefix_snoc_ne hne hy)).symm
          exact hinv.reachNew p hp x (hx.frame hpost.wf hfr)
        · subst hp
          have hback : ∀ y, (d ++ [key]) <+: y → fs y = acc.1 y := fun y hy => (hsame y hy).symm
          rcases hpost.reachNew x hx with h | ⟨u, hu, a, ha1, ha2, ha3⟩
          · exact Or.inl (h.frame hinv.wf hback)
          · exact Or.inr ⟨u, hu, a, ha1, ha2, ha3.frame hinv.wf (fun y hy => hback y (prefix_trans' ha1 hy))⟩
      · -- a list that exists now existed at the start or is reachable from one of the merged children
        intro x hx
        rcases hpost.existNew x hx with h | h
        · rcases hinv.existNew x h with h0 | ⟨p, hp, hpx⟩
          · exact Or.inl h0
          · have hne : p.1 ≠ key := fun hh => hkey_notin (hh ▸ List.mem_map.mpr ⟨p, hp, rfl⟩)
            have hfr : ∀ y, (d ++ [p.1]) <+: y → (M acc.1 (d ++ [key]) us).1 y = acc.1 y :=
              fun y hy => hpost.frame y (prefix_snoc_ne hne hy)
            exact Or.inr ⟨p, by simp [hp], hpx.frame hinv.wf hfr⟩
        · exact Or.inr ⟨(key, us), by simp, h⟩
      · intro k hk
        simp only [List.mem_append, List.mem_singleton] at hk
        rcases hk with hk | hk
        · have hex := hinv.exact k hk
          have hkd : k.dir ∈ (doneG.map (·.1)).map (fun g => d ++ [g]) := by
            rw [← hinv.dirs]; exact List.mem_map.mpr ⟨k, hk, rfl⟩
          obtain ⟨g0, hg0, hg0d⟩ := List.mem_map.mp hkd
          apply hex.frame
          intro x hx
          apply hpost.frame
          have hne : g0 ≠ key := fun h => hkey_notin (h ▸ hg0)
          exact prefix_snoc_ne hne (by rw [hg0d]; exact hx)
        · subst hk; exact hpost.exact
      · intro x; rw [hpost.files x]; exact hinv.files x
    have hnd' : (((doneG ++ [(key, us)]) ++ gs).map (·.1)).Nodup := by simpa [List.append_assoc] using hnd
    have := ih (doneG ++ [(key, us)]) _ hnd' (fun g us' hm => hups g us' (by simp [hm])) (Or.inl hB) hnew
    simpa [List.append_assoc] using this

theorem nodup_map_snoc (d : Dir) : ∀ (l : List Nat), l.Nodup → (l.map (fun g => d ++ [g])).Nodup := by
  intro l
  induction l with
  | nil => intro _; simp
  | cons a as ih =>
    intro h
    simp only [List.nodup_cons] at h
    simp only [List.map_cons, List.nodup_cons]
    refine ⟨?_, ih h.2⟩
    intro hm
    obtain ⟨b, hb, he⟩ := List.mem_map.mp hm
    have : b = a := by simpa using List.append_cancel_left he
    subst this; exact h.1 hb

/-- **merge_spec.**  For every store that is well formed (each list self-summing, child records
one level deeper) and every set of updates below `d`, with enough fuel for the deepest recorded or
updated directory, `merge` returns an exact info for `d`, changes nothing outside `d`, keeps every
list's shard files, and re-establishes the invariants. -/
theorem merge_spec (H : SList → Nat) (B : Nat) : ∀ (fuel : Nat) (fs : FS) (d : Dir) (us : List Kid),
    B < fuel + d.length → Pre B fs d us → Post H B fs d us (merge H fuel fs d us).1 (merge H fuel fs d us).2 := by
  intro fuel
  induction fuel with
  | zero => intro fs d us hf hp; have := hp.len; omega
  | succ fuel ih =>
    intro fs d us hf hp
    rw [merge_succ]
    -- name the pieces
    generalize hroot : (fs d).getD {} = root
    generalize hdeeper : us.filter (fun u => u.dir.length > d.length) ++ root.kids = deeper
    generalize hr : foldMerge (merge H fuel) d (groupBy d.length deeper) (fs, []) = r
    have hrootwf : WFL d root := by
      cases hfd : fs d with
      | none => rw [hfd] at hroot; simp at hroot; subst hroot; exact wfl_default d
      | some l => rw [hfd] at hroot; simp at hroot; subst hroot; exact hp.wf d l hfd
    have hgi := groupBy_inv d.length deeper
    -- every element of `deeper` lies strictly below d, within the depth bound
    have hdeep : ∀ e ∈ deeper, d <+: e.dir ∧ d.length < e.dir.length ∧ e.dir.length ≤ B := by
      intro e he
      rw [← hdeeper] at he
      simp only [List.mem_append, List.mem_filter, decide_eq_true_eq] at he
      rcases he with ⟨h1, h2⟩ | h1
      · exact ⟨(hp.ups e h1).1, h2, (hp.ups e h1).2⟩
      · obtain ⟨y, hy⟩ := hrootwf.shape e h1
        refine ⟨by rw [hy]; exact List.prefix_append _ _, by rw [hy]; simp, ?_⟩
        cases hfd : fs d with
        | none => rw [hfd] at hroot; simp at hroot; subst hroot; simp at h1
        | some l => rw [hfd] at hroot; simp at hroot; subst hroot; exact hp.depth d l hfd e h1
    have hgroups : ∀ g vs, (g, vs) ∈ groupBy d.length deeper → ∀ u ∈ vs, (d ++ [g]) <+: u.dir ∧ u.dir.length ≤ B := by
      intro g vs hm u hu
      obtain ⟨h1, h2⟩ := hgi.sound g vs hm u hu
      obtain ⟨hpre, hlt, hle⟩ := hdeep u h1
      refine ⟨?_, hle⟩
      -- u.dir = d ++ rest with rest non-empty whose head is the key g
      obtain ⟨t, ht⟩ := hpre
      cases t with
      | nil => simp at ht; rw [← ht] at hlt; omega
      | cons y ys =>
        have hy : u.dir.getD d.length 0 = y := by rw [← ht]; simp [List.getD]
        rw [h2] at hy; subst hy
        exact ⟨ys, by rw [← ht]; simp⟩
    have hlenB : d.length + 1 ≤ B ∨ groupBy d.length deeper = [] := by
      cases hg : groupBy d.length deeper with
      | nil => right; rfl
      | cons p ps =>
        left
        obtain ⟨g, vs⟩ := p
        have hm : (g, vs) ∈ groupBy d.length deeper := by rw [hg]; simp
        -- a group is never empty: take any element via coverage … use soundness on the key instead
        have hne : ∃ e ∈ deeper, True := by
          cases hde : deeper with
          | nil => rw [hde] at hg; simp [groupBy] at hg
          | cons e es => exact ⟨e, by simp, trivial⟩
        obtain ⟨e, he, _⟩ := hne
        obtain ⟨_, hlt, hle⟩ := hdeep e he
        omega
    have hM : ∀ fs' e us', e.length = d.length + 1 → Pre B fs' e us' →
        Post H B fs' e us' (merge H fuel fs' e us').1 (merge H fuel fs' e us').2 :=
      fun fs' e us' hl hpre => ih fs' e us' (by omega) hpre
    have hfold := foldMerge_spec H B (merge H fuel) fs d hp.wf hM (groupBy d.length deeper) [] (fs, [])
      (by simpa using hgi.nodup) hgroups hlenB
      ⟨hp.wf, hp.depth, fun x _ => rfl, by simp, by simp, by simp, fun x hx => Or.inl hx, by simp, fun x => rfl⟩
    simp only [List.nil_append] at hfold
    rw [hr] at hfold
    -- the final write at d
    have hkd : ∀ k ∈ r.2, ∃ g, k.dir = d ++ [g] := by
      intro k hk
      have : k.dir ∈ r.2.map (·.dir) := List.mem_map.mpr ⟨k, hk, rfl⟩
      rw [hfold.dirs] at this
      obtain ⟨g, _, hg⟩ := List.mem_map.mp this
      exact ⟨g, hg.symm⟩
    -- the merged child for a group
    have hkid_of : ∀ p ∈ groupBy d.length deeper, ∃ k ∈ r.2, k.dir = d ++ [p.1] := by
      intro p hp'
      have : d ++ [p.1] ∈ r.2.map (·.dir) := by
        rw [hfold.dirs]; exact List.mem_map.mpr ⟨p.1, List.mem_map.mpr ⟨p, hp', rfl⟩, rfl⟩
      obtain ⟨k, hk, hkd⟩ := List.mem_map.mp this
      exact ⟨k, hk, hkd⟩
    have hd_not_below : ∀ g, ¬ (d ++ [g]) <+: d := fun g => not_prefix_of_longer (by simp)
    have hrd : r.1 d = fs d := hfold.frame d (fun g _ => hd_not_below g)
    -- reaching an element of `deeper` after the final write
    have hreach_deeper : ∀ (fsF : FS) (lF : SList), fsF d = some lF → lF.kids = r.2 →
        (∀ y, d ≠ y → fsF y = r.1 y) → ∀ e ∈ deeper, Reaches fsF d e.dir ∧ (∀ x, Reaches fs e.dir x → e.dir.length = d.length + 1 → Reaches fsF d x) := by
      intro fsF lF hFd hFk hFo e he
      obtain ⟨vs, hvs, hevs⟩ := hgi.cover e he
      obtain ⟨k, hk, hkd⟩ := hkid_of _ hvs
      obtain ⟨h1, h2⟩ := hfold.reach _ hvs
      have hfr : ∀ y, (d ++ [e.dir.getD d.length 0]) <+: y → fsF y = r.1 y := by
        intro y hy; apply hFo; intro hdy; subst hdy; exact hd_not_below _ hy
      have hkmem : k ∈ lF.kids := by rw [hFk]; exact hk
      refine ⟨Reaches.step hFd hkmem (by rw [hkd]; exact (h2 e hevs).frame hfold.wf hfr), ?_⟩
      intro x hx hlen
      -- e.dir = d ++ [key]
      have hed : e.dir = d ++ [e.dir.getD d.length 0] := by
        obtain ⟨hpre, _, _⟩ := hdeep e he
        obtain ⟨t, ht⟩ := hpre
        cases t with
        | nil => simp at ht; rw [← ht] at hlen; omega
        | cons y ys =>
          have : ys = [] := by
            have := congrArg List.length ht; simp at this
            cases ys with
            | nil => rfl
            | cons z zs => simp at this; omega
          subst this
          rw [← ht]; simp [List.getD]
      rw [hed] at hx
      exact Reaches.step hFd hkmem (by rw [hkd]; exact (h1 x hx).frame hfold.wf hfr)
    let l' : SList := { root with n := (root.n - sumN root.kids) + sumN r.2, kids := r.2 }
    have hwfl' : WFL d l' := by
      refine ⟨?_, ?_, ?_⟩
      · have := hrootwf.sum; simp only [l']; omega
      · intro c hc; obtain ⟨g, hg⟩ := hkd c hc; exact ⟨g, hg⟩
      · simp only [l']; rw [hfold.dirs]
        have hinj : ∀ a b : Nat, d ++ [a] = d ++ [b] → a = b := by
          intro a b h; simpa using List.append_cancel_left h
        exact nodup_map_snoc d _ hgi.nodup
    simp only [writeConfig]
    have hFd : (r.1.set d l') d = some l' := set_same _ _ _
    have hFo : ∀ y, d ≠ y → (r.1.set d l') y = r.1 y := fun y h => set_other _ _ _ _ (fun h' => h h'.symm)
    have hwfF : WF (r.1.set d l') := by
      intro x l hx
      by_cases hxd : x = d
      · subst hxd; rw [set_same] at hx; cases hx; exact hwfl'
      · rw [set_other _ _ _ _ hxd] at hx; exact hfold.wf x l hx
    -- a member of a group is an update lying deeper, or a child the list at d already recorded
    have hmember : ∀ m ∈ deeper, (m ∈ us) ∨ (m ∈ root.kids ∧ fs d = some root) := by
      intro m hm
      rw [← hdeeper] at hm
      simp only [List.mem_append, List.mem_filter] at hm
      rcases hm with ⟨h1, _⟩ | h1
      · exact Or.inl h1
      · right; refine ⟨h1, ?_⟩
        cases hfd : fs d with
        | none => rw [hfd] at hroot; simp at hroot; subst hroot; simp at h1
        | some l => rw [hfd] at hroot; simp at hroot; subst hroot; rfl
    have hkid_dir : ∀ m ∈ root.kids, ∀ g, (d ++ [g]) <+: m.dir → m.dir = d ++ [g] := by
      intro m hm g hpre
      obtain ⟨y, hy⟩ := hrootwf.shape m hm
      rw [hy] at hpre ⊢
      by_cases hgy : g = y
      · rw [hgy]
      · exact absurd (List.prefix_refl _) (prefix_snoc_ne hgy hpre)
    refine ⟨rfl, ?_, ?_, ?_, ?_, ?_, ?_, ?_, ?_, ?_, ?_⟩
    · -- everything that was reachable stays reachable
      intro x hx
      cases hx with
      | refl => exact Reaches.refl _
      | @step _ _ c l hget hc hcx =>
        have hl : l = root := by rw [hget] at hroot; simpa using hroot
        subst hl
        have hcd : c ∈ deeper := by rw [← hdeeper]; simp [hc]
        obtain ⟨y, hy⟩ := hrootwf.shape c hc
        exact (hreach_deeper _ l' hFd rfl hFo c hcd).2 x hcx (by rw [hy]; simp)
    · -- nothing else becomes reachable
      intro x hx
      cases hx with
      | refl => exact Or.inl (Reaches.refl _)
      | @step _ _ c l hget hc hcx =>
        rw [hFd] at hget; cases hget
        obtain ⟨g, hg⟩ := hkd c hc
        have hgk : g ∈ (groupBy d.length deeper).map (·.1) := by
          have hcd : c.dir ∈ r.2.map (·.dir) := List.mem_map.mpr ⟨c, hc, rfl⟩
          rw [hfold.dirs] at hcd
          obtain ⟨g', hg', hgd⟩ := List.mem_map.mp hcd
          have hgg : g' = g := by rw [hg] at hgd; simpa using List.append_cancel_left hgd
          exact hgg ▸ hg'
        obtain ⟨p, hp', hpg⟩ := List.mem_map.mp hgk
        have hfrB : ∀ y, (d ++ [g]) <+: y → r.1 y = (r.1.set d l') y :=
          fun y hy => (hFo y (fun hdy => hd_not_below g (hdy ▸ hy))).symm
        have hcx' : Reaches r.1 (d ++ [p.1]) x := by rw [hpg]; rw [hg] at hcx; exact hcx.frame hwfF hfrB
        obtain ⟨e, he⟩ := List.exists_mem_of_ne_nil _ (hgi.nonempty p.1 p.2 hp')
        have hed := hgi.sound p.1 p.2 hp' e he
        have hegp := hgroups p.1 p.2 hp' e he
        rcases hfold.reachNew p hp' x hcx' with h | ⟨u, hu, a, ha1, ha2, ha3⟩
        · rcases hmember e hed.1 with heu | ⟨hek, hfd⟩
          · exact Or.inr ⟨e, heu, d ++ [p.1], List.prefix_append _ _, hegp.1, h⟩
          · have hdir := hkid_dir e hek p.1 hegp.1
            exact Or.inl (Reaches.step hfd hek (by rw [hdir]; exact h))
        · have hud := hgi.sound p.1 p.2 hp' u hu
          have hugp := hgroups p.1 p.2 hp' u hu
          rcases hmember u hud.1 with huu | ⟨huk, hfd⟩
          · exact Or.inr ⟨u, huu, a, prefix_trans' (List.prefix_append _ _) ha1, ha2, ha3⟩
          · have hdir := hkid_dir u huk p.1 hugp.1
            have haeq : a = u.dir := by
              rw [hdir] at ha2 ⊢
              exact List.IsPrefix.eq_of_length ha2 (Nat.le_antisymm ha2.length_le ha1.length_le)
            exact Or.inl (Reaches.step hfd huk (by rw [← haeq]; exact ha3))
    · -- every list that exists afterwards existed before or is reachable from d
      intro x hx
      by_cases hxd : x = d
      · subst hxd; exact Or.inr (Reaches.refl _)
      · rw [set_other _ _ _ _ hxd] at hx
        rcases hfold.existNew x hx with h | ⟨p, hp', hpx⟩
        · exact Or.inl h
        · right
          obtain ⟨k, hk, hkd'⟩ := hkid_of p hp'
          have hfr : ∀ y, (d ++ [p.1]) <+: y → (r.1.set d l') y = r.1 y :=
            fun y hy => hFo y (fun hdy => hd_not_below p.1 (hdy ▸ hy))
          exact Reaches.step hFd (show k ∈ l'.kids from hk) (by rw [hkd']; exact hpx.frame hfold.wf hfr)
    · -- every update is reachable
      intro u hu
      obtain ⟨hpre, hle⟩ := hp.ups u hu
      by_cases hlen : u.dir.length > d.length
      · have hud : u ∈ deeper := by rw [← hdeeper]; simp [hu, hlen]
        exact (hreach_deeper _ l' hFd rfl hFo u hud).1
      · have : u.dir = d := by
          obtain ⟨t, ht⟩ := hpre
          have := congrArg List.length ht; simp at this
          have ht0 : t = [] := List.length_eq_zero_iff.mp (by omega)
          subst ht0; simpa using ht.symm
        rw [this]; exact Reaches.refl _
    · refine ⟨l', hFd, ?_⟩
      have hd2 : us.filter (fun u => u.dir.length > d.length) ++ ((fs d).getD {}).kids = deeper := by
        rw [hroot]; exact hdeeper
      show r.2.map (·.dir) = _
      rw [hfold.dirs, hd2, List.map_map]; rfl
    · intro x hx
      have hxd : x ≠ d := fun h => hx (h ▸ List.prefix_refl _)
      rw [set_other _ _ _ _ hxd]
      exact hfold.frame x (fun g _ hpx => hx (prefix_trans' (List.prefix_append _ _) hpx))
    · refine Exact.mk (l := l') (set_same _ _ _) rfl rfl rfl hwfl' ?_
      intro c hc
      apply (hfold.exact c hc).frame
      intro x hx
      apply set_other
      intro hxd
      obtain ⟨g, hg⟩ := hkd c hc
      rw [hxd, hg] at hx
      exact hd_not_below g hx
    · intro x l hx
      by_cases hxd : x = d
      · subst hxd; rw [set_same] at hx; cases hx; exact hwfl'
      · rw [set_other _ _ _ _ hxd] at hx; exact hfold.wf x l hx
    · intro x l hx c hc
      by_cases hxd : x = d
      · subst hxd; rw [set_same] at hx; cases hx
        -- a new child record d ++ [g] comes from an element of `deeper`, which is within the bound
        obtain ⟨g, hg⟩ := hkd c hc
        rw [hg]
        rcases hlenB with h | h
        · simpa using h
        · -- no groups: no children
          rw [h] at hr; simp [foldMerge] at hr; subst hr; simp at hc
      · rw [set_other _ _ _ _ hxd] at hx; exact hfold.depth x l hx c hc
    · intro x
      by_cases hxd : x = d
      · subst hxd
        simp only [filesAt, set_same, Option.map_some, Option.getD_some, l']
        rw [← hroot]; cases fs x <;> simp
      · simp only [filesAt, set_other _ _ _ _ hxd]; exact hfold.files x

end Sedpack.Tree
