import SedpackProofs.IterSB
import SedpackProofs.IterRR
import SedpackProofs.PoolThm
import SedpackModel.Pipeline
/-! Stage lemmas for the pipelines: each complete run yields a permutation of (or exactly) its input. -/
namespace Sedpack.Pipe
open Sedpack.Iter

theorem sb_reach_of_accepts (b : Nat) : ∀ (tr : List SBLbl) (s s' : SB), SBReach b s → SB.accepts s tr = some s' → SBReach b s' := by
  intro tr
  induction tr with
  | nil => intro s s' h ha; simp [SB.accepts] at ha; subst ha; exact h
  | cons l ls ih =>
    intro s s' h ha
    simp only [SB.accepts] at ha
    cases hs : SB.step s l with
    | none => simp [hs] at ha
    | some s1 => simp [hs] at ha; exact ih s1 s' (SBReach.step h hs) ha

theorem rr_reach_of_accepts (b : Nat) : ∀ (tr : List RRLbl) (s s' : RR), RRReach b s → RR.accepts s tr = some s' → RRReach b s' := by
  intro tr
  induction tr with
  | nil => intro s s' h ha; simp [RR.accepts] at ha; subst ha; exact h
  | cons l ls ih =>
    intro s s' h ha
    simp only [RR.accepts] at ha
    cases hs : RR.step s l with
    | none => simp [hs] at ha
    | some s1 => simp [hs] at ha; exact ih s1 s' (RRReach.step h hs) ha

theorem SBRun_perm (b : Nat) (xs out : List Nat) (h : SBRun b xs out) : out.Perm xs := by
  obtain ⟨tr, s, ha, hd, hp, ho⟩ := h
  have hi := (sb_inv_reach b s (sb_reach_of_accepts b tr _ s SBReach.init ha)).1
  obtain ⟨hpend, hbuf⟩ := hi.donep hd
  apply List.perm_iff_count.mpr
  intro a
  have := hi.cons a
  simp only [pendL, hpend, hbuf, hp, ho] at this
  simp at this
  omega

theorem RRRun_perm (b : Nat) (ls : List (List Nat)) (out : List Nat) (h : RRRun b ls out) :
    out.Perm ls.flatten := by
  obtain ⟨tr, s, ha, hf, _, hp, ho⟩ := h
  have hr := rr_reach_of_accepts b tr _ s RRReach.init ha
  have hi := (rr_inv_reach b s hr).1
  -- a finished run has no open inner iterator: `finish` is the only way to set the flag
  have hopen : s.open_ = [] := by
    clear hp ho hi
    induction hr with
    | init => simp [RR.init] at hf
    | @step s0 s1 l hr0 hs ih =>
      cases l <;> simp only [RR.step] at hs
      all_goals (repeat' split at hs) <;> simp at hs <;> (try subst hs) <;> simp_all
  apply List.perm_iff_count.mpr
  intro a
  have := hi.cons a
  rw [hopen, hp, ho] at this
  simp [restOf] at this
  omega

theorem PoolRun_perm (T n : Nat) (order : List Nat) (h : PoolRun T n order) : order.Perm (List.range n) := by
  obtain ⟨c, s, hT, hP, hn, hfw, _, hr, hend, ho⟩ := h
  obtain ⟨n', hn', hp⟩ := Pool.normalEnd_perm c hfw (by omega) (by omega) s hr hend
  rw [hn] at hn'; cases hn'
  rw [← ho]; exact hp

theorem batches_flatten (T : Nat) (hT : 0 < T) : ∀ (fuel : Nat) (xs : List α), xs.length < fuel →
    (batches T fuel xs).flatten = xs := by
  intro fuel
  induction fuel with
  | zero => intro xs h; omega
  | succ n ih =>
    intro xs h
    simp only [batches]
    split
    · rename_i he
      have : xs = [] := by
        cases xs with
        | nil => rfl
        | cons x xs' =>
          have : (x :: xs').take T ≠ [] := by
            cases T with
            | zero => omega
            | succ t => simp
          exact absurd he this
      simp [this]
    · rename_i hne
      have hxs : xs ≠ [] := by intro h0; subst h0; simp at hne
      have hlen : 0 < xs.length := List.length_pos_iff.mpr hxs
      rw [List.flatten_cons, ih (xs.drop T) (by simp only [List.length_drop]; omega)]
      exact List.take_append_drop T xs

theorem batches_sizes (T : Nat) : ∀ (fuel : Nat) (xs : List α), ∀ b ∈ batches T fuel xs, 0 < b.length ∧ b.length ≤ T := by
  intro fuel
  induction fuel with
  | zero => intro xs b h; simp [batches] at h
  | succ n ih =>
    intro xs b h
    simp only [batches] at h
    split at h
    · simp at h
    · rename_i hne
      simp only [List.mem_cons] at h
      rcases h with h | h
      · subst h
        exact ⟨List.length_pos_iff.mpr hne, by simp [List.length_take]; omega⟩
      · exact ih _ b h

theorem flatMap_batches {α β} (L : List (List α)) (f : α → List β) :
    L.flatMap (fun b => b.flatMap f) = L.flatten.flatMap f := by
  induction L with
  | nil => rfl
  | cons b bs ih => simp [List.flatMap_cons, List.flatten_cons, List.flatMap_append, ih]

theorem batches_flatMap_eq {α β} (T : Nat) (hT : 0 < T) (ps : List α) (f : α → List β) :
    (batches T (ps.length + 1) ps).flatMap (fun batch => batch.flatMap f) = ps.flatMap f := by
  rw [flatMap_batches, batches_flatten T hT _ ps (by omega)]

end Sedpack.Pipe
