import SedpackModel.Writer
/-! Lemmas about M-WRITER. -/
namespace Sedpack.Writer

theorem payloads_length (ex : Ex) : (payloads ex).length = ex.length := by simp [payloads]

/-! ### npz -/

theorem npzWrite_error (cols : NpzSt) (ex : Ex) (h : (npzWrite cols ex).2 ≠ .ok) : (npzWrite cols ex).1 = cols := by
  unfold npzWrite at *
  split
  · rfl
  · rename_i hm; simp [hm] at h

theorem zipWith_colsOf (k : Nat) (acc : List (List Nat)) (p : List Nat) (hp : p.length = k) :
    List.zipWith (fun c x => c ++ [x]) (colsOf k acc) p = colsOf k (acc ++ [p]) := by
  apply List.ext_getElem
  · simp [colsOf, hp]
  · intro j h1 h2
    simp only [List.length_zipWith, colsOf, List.length_map, List.length_range] at h1
    simp only [colsOf, List.getElem_zipWith, List.getElem_map, List.getElem_range, List.map_append, List.map_cons, List.map_nil]
    congr 1
    have hj : j < p.length := by omega
    simp [List.getD_eq_getElem?_getD, List.getElem?_eq_getElem hj]

theorem npzWrite_ok (k : Nat) (acc : List (List Nat)) (ex : Ex) (hk : ex.length = k)
    (h : (npzWrite (colsOf k acc) ex).2 = .ok) : (npzWrite (colsOf k acc) ex).1 = colsOf k (acc ++ [payloads ex]) := by
  unfold npzWrite at *
  split
  · rename_i j hm; simp [hm] at h
  · simp only []
    exact zipWith_colsOf k acc (payloads ex) (by rw [payloads_length, hk])

theorem rect_colsOf (k : Nat) (acc : List (List Nat)) : rect (colsOf k acc) = true := by
  unfold colsOf
  cases k with
  | zero => rfl
  | succ n =>
    rw [List.range_succ_eq_map]
    simp [rect]

theorem rows_colsOf (k : Nat) (hk : 0 < k) (acc : List (List Nat)) (hw : ∀ r ∈ acc, r.length = k) :
    rows (colsOf k acc) = acc := by
  obtain ⟨n, rfl⟩ : ∃ n, k = n + 1 := ⟨k - 1, by omega⟩
  have hc : colsOf (n + 1) acc = (acc.map (fun row => row.getD 0 0)) :: (List.range n).map (fun j => acc.map (fun row => row.getD (j + 1) 0)) := by
    simp [colsOf, List.range_succ_eq_map]
  rw [hc]
  simp only [rows, List.length_map]
  rw [← hc]
  apply List.ext_getElem
  · simp
  · intro i h1 h2
    simp only [List.getElem_map, List.getElem_range]
    have hr := hw acc[i] (List.getElem_mem h2)
    apply List.ext_getElem
    · simp [colsOf, hr]
    · intro j hj1 hj2
      simp only [colsOf, List.getElem_map, List.getElem_range, List.map_map]
      simp only [List.getD_eq_getElem?_getD, List.getElem?_map, List.getElem?_eq_getElem h2, Option.map_some, Option.getD_some,
        Function.comp]
      simp [List.getElem?_eq_getElem hj2]

/-! ### FlatBuffers, TFRecord -/

theorem fbLoop_err_ne_ok : ∀ (ex : Ex) (j k : Nat) (e : Out), fbLoop ex j = (k, some e) → e ≠ .ok := by
  intro ex
  induction ex with
  | nil => intro j k e h; simp [fbLoop] at h
  | cons v vs ih =>
    intro j k e h
    cases v with
    | none => simp [fbLoop] at h; rw [← h.2]; simp
    | some x =>
      simp only [fbLoop] at h
      split at h
      · exact ih _ _ _ h
      · simp at h; rw [← h.2]; simp

theorem fbWrite_examples (s : FbSt) (ex : Ex) :
    (fbWrite s ex).1.examples = if (fbWrite s ex).2 = .ok then s.examples ++ [payloads ex] else s.examples := by
  unfold fbWrite
  split
  · simp
  · rename_i k e hk; simp [fbLoop_err_ne_ok ex 0 k e hk]

theorem tfBuild_ne_ok : ∀ (ex : Ex) (j : Nat) (e : Out), tfBuild ex j = some e → e ≠ .ok := by
  intro ex
  induction ex with
  | nil => intro j e h; simp [tfBuild] at h
  | cons v vs ih =>
    intro j e h
    cases v with
    | none => simp [tfBuild] at h; rw [← h]; simp
    | some x =>
      simp only [tfBuild] at h
      split at h
      · simp at h; rw [← h]; simp
      · split at h
        · simp at h; rw [← h]; simp
        · exact ih _ _ h

theorem tfWrite_spec (s : TfSt) (ex : Ex) :
    ((tfWrite s ex).2 = .ok → (tfWrite s ex).1 = { opened := true, records := s.records ++ [payloads ex] }) ∧
    ((tfWrite s ex).2 ≠ .ok → (tfWrite s ex).1 = s) := by
  unfold tfWrite
  split
  · simp
  · split
    · rename_i e he
      have := tfBuild_ne_ok ex 0 e he
      simp [this]
    · simp

theorem baseCheck_ne_ok : ∀ (attrs : Attrs) (ex : Ex) (j : Nat) (e : Out), baseCheck attrs ex j = some e → e ≠ .ok := by
  intro attrs
  induction attrs with
  | nil => intro ex j e h; simp [baseCheck] at h
  | cons a as ih =>
    intro ex j e h
    cases ex with
    | nil => simp [baseCheck] at h; rw [← h]; simp
    | cons v vs =>
      simp only [baseCheck] at h
      split at h
      · exact ih _ _ _ h
      · split at h
        · simp at h; rw [← h]; simp
        · split at h
          · exact ih _ _ _ h
          · simp at h; rw [← h]; simp

/-- generic: a writer whose `_write` leaves `view` untouched on error and appends the payload row on success keeps
`view = accepted rows` over any sequence of `write` calls -/
theorem runW_view {S : Type} (w : S → Ex → S × Out) (view : S → List (List Nat)) (attrs : Attrs)
    (hok : ∀ s ex, (w s ex).2 = .ok → view (w s ex).1 = view s ++ [payloads ex])
    (herr : ∀ s ex, (w s ex).2 ≠ .ok → view (w s ex).1 = view s) :
    ∀ (exs : List Ex) (s : S), view (runW w attrs s exs).1 = view s ++ accepted exs (runW w attrs s exs).2 := by
  intro exs
  induction exs with
  | nil => intro s; simp [runW, accepted]
  | cons ex rest ih =>
    intro s
    simp only [runW]
    rw [ih]
    unfold write
    split
    · rename_i e he
      have hne := baseCheck_ne_ok attrs ex 0 e he
      cases e <;> simp_all [accepted]
    · by_cases h : (w s ex).2 = .ok
      · rw [hok s ex h]; simp [accepted, h]
      · rw [herr s ex h]
        cases hh : (w s ex).2 <;> simp_all [accepted]

end Sedpack.Writer
