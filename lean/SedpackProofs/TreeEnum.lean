import SedpackProofs.TreeSession
/-! What iteration enumerates (`shardsOf`) in terms of reachability; a session adds exactly what it wrote. -/
namespace Sedpack.Tree

theorem Reaches.trans {fs : FS} {a b c : Dir} (h1 : Reaches fs a b) (h2 : Reaches fs b c) : Reaches fs a c := by
  induction h1 with
  | refl d => exact h2
  | @step d x k l hget hk _ ih => exact Reaches.step hget hk (ih h2)

/-- **Enumeration = reachable lists.** With enough fuel for the deepest recorded directory, the shards the
depth-first walk yields from `d` are exactly the shard entries of the lists reachable from `d`. -/
theorem mem_shardsOf (B : Nat) : ∀ (fuel : Nat) (fs : FS) (d : Dir), WF fs → DepthOK fs B → d.length ≤ B → B < fuel + d.length →
    ∀ sh, sh ∈ shardsOf fuel fs d ↔ ∃ x, Reaches fs d x ∧ sh ∈ filesAt fs x := by
  intro fuel
  induction fuel with
  | zero => intro fs d _ _ h1 h2; omega
  | succ fuel ih =>
    intro fs d hwf hdep hle hf sh
    simp only [shardsOf]
    cases hfd : fs d with
    | none =>
      simp only [List.not_mem_nil, false_iff]
      rintro ⟨x, hx, hsh⟩
      cases hx with
      | refl => simp [filesAt, hfd] at hsh
      | step hget _ _ => rw [hfd] at hget; cases hget
    | some l =>
      simp only [List.mem_append, List.mem_flatMap]
      constructor
      · rintro (h | ⟨c, hc, hsh⟩)
        · exact ⟨d, Reaches.refl _, by simp [filesAt, hfd, h]⟩
        · obtain ⟨y, hy⟩ := (hwf d l hfd).shape c hc
          have hcl : c.dir.length = d.length + 1 := by rw [hy]; simp
          obtain ⟨x, hx, hs⟩ := (ih fs c.dir hwf hdep (hdep d l hfd c hc) (by omega) sh).mp hsh
          exact ⟨x, Reaches.step hfd hc hx, hs⟩
      · rintro ⟨x, hx, hsh⟩
        cases hx with
        | refl => left; simpa [filesAt, hfd] using hsh
        | @step _ _ c l' hget hc hcx =>
          rw [hfd] at hget; cases hget
          obtain ⟨y, hy⟩ := (hwf d l hfd).shape c hc
          have hcl : c.dir.length = d.length + 1 := by rw [hy]; simp
          right
          exact ⟨c, hc, (ih fs c.dir hwf hdep (hdep d l hfd c hc) (by omega) sh).mpr ⟨x, hcx, hsh⟩⟩

def kidsAt (fs : FS) (y : Dir) : List Kid := ((fs y).map (·.kids)).getD []

theorem reaches_of_kidsAt {fs fs' : FS} (h : ∀ y, kidsAt fs y = kidsAt fs' y) {d x : Dir} (hr : Reaches fs d x) : Reaches fs' d x := by
  induction hr with
  | refl d => exact Reaches.refl _
  | @step d x c l hget hc _ ih =>
    have hk : c ∈ kidsAt fs' d := by rw [← h d]; simp [kidsAt, hget, hc]
    cases hfd : fs' d with
    | none => simp [kidsAt, hfd] at hk
    | some l' => exact Reaches.step hfd (by simpa [kidsAt, hfd] using hk) ih

theorem appendShards_kidsAt (fs : FS) (d : Dir) (new : List Shard) (y : Dir) : kidsAt (appendShards fs d new) y = kidsAt fs y := by
  by_cases hyd : y = d
  · subst hyd; simp only [kidsAt, appendShards, set_same]; cases fs y <;> simp
  · simp only [kidsAt, appendShards_other _ _ _ _ hyd]

theorem applyWrites_kidsAt : ∀ (se : Session) (fs : FS) (y : Dir), kidsAt (applyWrites fs se) y = kidsAt fs y := by
  intro se
  induction se with
  | nil => intro fs y; rfl
  | cons w ws ih =>
    intro fs y
    simp only [applyWrites, List.foldl_cons]
    have := ih (appendShards fs w.1 w.2) y
    simp only [applyWrites] at this
    rw [this, appendShards_kidsAt]

/-- the shards a session wrote into directory `x`, in writing order -/
def newAt (se : Session) (x : Dir) : List Shard := (se.filter (fun w => w.1 = x)).flatMap (·.2)

theorem applyWrites_files : ∀ (se : Session) (fs : FS) (x : Dir), filesAt (applyWrites fs se) x = filesAt fs x ++ newAt se x := by
  intro se
  induction se with
  | nil => intro fs x; simp [applyWrites, newAt]
  | cons w ws ih =>
    intro fs x
    simp only [applyWrites, List.foldl_cons]
    have := ih (appendShards fs w.1 w.2) x
    simp only [applyWrites] at this
    rw [this]
    by_cases hwx : w.1 = x
    · subst hwx
      rw [appendShards_files]
      simp [newAt, List.append_assoc]
    · have : filesAt (appendShards fs w.1 w.2) x = filesAt fs x := by
        simp only [filesAt, appendShards_other _ _ _ _ (fun h => hwx h.symm)]
      rw [this]
      simp [newAt, hwx]

theorem applyWrites_exists : ∀ (se : Session) (fs : FS) (x : Dir), applyWrites fs se x ≠ none → fs x ≠ none ∨ ∃ w ∈ se, w.1 = x := by
  intro se
  induction se with
  | nil => intro fs x h; exact Or.inl h
  | cons w ws ih =>
    intro fs x h
    simp only [applyWrites, List.foldl_cons] at h
    rcases ih (appendShards fs w.1 w.2) x (by simpa [applyWrites] using h) with h1 | ⟨w', hw', hx⟩
    · by_cases hwx : w.1 = x
      · exact Or.inr ⟨w, by simp, hwx⟩
      · rw [appendShards_other _ _ _ _ (fun hh => hwx hh.symm)] at h1; exact Or.inl h1
    · exact Or.inr ⟨w', by simp [hw'], hx⟩

/-- every list document that exists is linked into the tree of its split (no leftovers of crashed sessions) -/
def Linked (fs : FS) : Prop := ∀ x, fs x ≠ none → Reaches fs [x.headD 0] x

theorem head_of_single_prefix {s : Nat} {x : Dir} (h : [s] <+: x) : x.headD 0 = s := by
  obtain ⟨t, ht⟩ := h; rw [← ht]; rfl

/-- a completed session keeps the tree free of unlinked lists -/
theorem session_linked (H : SList → Nat) (B fuel : Nat) (hfuel : B < fuel + 1) (hB : 1 ≤ B) (ds : DS) (se : Session)
    (hse : ∀ w ∈ se, w.1 ≠ [] ∧ w.1.length ≤ B) (hg : Good H B ds) (hl : Linked ds.fs) : Linked (session H fuel ds se).fs := by
  obtain ⟨hgood, _, hreach, _, _, hex, hdirs⟩ := session_good H B fuel hfuel hB ds se hse hg
  intro x hx
  rcases hex x hx with h | ⟨s, hs⟩
  · rcases applyWrites_exists se ds.fs x h with h0 | ⟨w, hw, hwx⟩
    · have := hl x h0
      exact hreach _ x (reaches_of_kidsAt (fun y => (applyWrites_kidsAt se ds.fs y).symm) this)
    · rw [← hwx]; exact hdirs w hw
  · have := head_of_single_prefix (hs.prefix hgood.wf)
    rw [this]; exact hs

/-- **A session adds exactly what it wrote.**  In a dataset without unlinked lists, after any completed session the
shards enumerated for a split are exactly those enumerated before plus the shards the session closed in directories of
that split — nothing is lost, nothing else appears. -/
theorem session_adds_exactly (H : SList → Nat) (B fuel : Nat) (hfuel : B < fuel + 1) (hB : 1 ≤ B) (ds : DS) (se : Session)
    (hse : ∀ w ∈ se, w.1 ≠ [] ∧ w.1.length ≤ B) (hg : Good H B ds) (hl : Linked ds.fs) (s : Nat) (sh : Shard) :
    sh ∈ shardsOf fuel (session H fuel ds se).fs [s] ↔
      sh ∈ shardsOf fuel ds.fs [s] ∨ ∃ w ∈ se, w.1.headD 0 = s ∧ sh ∈ w.2 := by
  obtain ⟨hgood, _, hreach, hfiles, hnew, _, hdirs⟩ := session_good H B fuel hfuel hB ds se hse hg
  have hk := fun y => applyWrites_kidsAt se ds.fs y
  rw [mem_shardsOf B fuel _ [s] hgood.wf hgood.depth (by simpa using hB) (by simp; omega) sh,
      mem_shardsOf B fuel _ [s] hg.wf hg.depth (by simpa using hB) (by simp; omega) sh]
  constructor
  · rintro ⟨x, hx, hsh⟩
    rw [hfiles x, applyWrites_files] at hsh
    have hsx : [s] <+: x := hx.prefix hgood.wf
    rcases List.mem_append.mp hsh with hold | hnw
    · -- an old entry of x: x existed before, hence was linked
      left
      have hxe : ds.fs x ≠ none := by intro h0; simp [filesAt, h0] at hold
      have := hl x hxe
      rw [head_of_single_prefix hsx] at this
      exact ⟨x, this, hold⟩
    · right
      simp only [newAt, List.mem_flatMap, List.mem_filter, decide_eq_true_eq] at hnw
      obtain ⟨w, ⟨hw, hwx⟩, hshw⟩ := hnw
      exact ⟨w, hw, by rw [hwx]; exact head_of_single_prefix hsx, hshw⟩
  · rintro (⟨x, hx, hsh⟩ | ⟨w, hw, hws, hsh⟩)
    · refine ⟨x, hreach s x (reaches_of_kidsAt (fun y => (hk y).symm) hx), ?_⟩
      rw [hfiles x, applyWrites_files]; exact List.mem_append_left _ hsh
    · refine ⟨w.1, by rw [← hws]; exact hdirs w hw, ?_⟩
      rw [hfiles w.1, applyWrites_files]
      apply List.mem_append_right
      simp only [newAt, List.mem_flatMap, List.mem_filter, decide_eq_true_eq]
      exact ⟨w, ⟨hw, rfl⟩, hsh⟩

end Sedpack.Tree
