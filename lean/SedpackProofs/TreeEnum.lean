import SedpackProofs.TreeSession
/-! What iteration enumerates (`shardsOf`) in terms of reachability; a session adds exactly what it wrote. -/
namespace Sedpack.Tree

theorem Reaches.trans {fs : FS} {a b c : Dir} (h1 : Reaches fs a b) (h2 : Reaches fs b c) : Reaches fs a c := by
  induction h1 with
  | refl d => exact h2
  | @step d x k l hget hk _ ih => exact Reaches.step hget hk (ih h2)

/-- **Enumeration = reachable lists.** With enough fuel for the deepest recorded directory, the shards the
depth-first walk yields from `d` are exactly the shard entries of the lists reachable from `d`. -/
theorem mem_shardsOf (B : Nat) : ∀ (fuel : Nat) (fs : FS) (d : Dir), WF fs → DepthOK fs B → d.length ≤ B → B < fuel + d.length →
    ∀ sh, sh ∈ shardsOf fuel fs d ↔ ∃ x, Reaches fs d x ∧ sh ∈ filesAt fs x := by
  intro fuel
  induction fuel with
  | zero => intro fs d _ _ h1 h2; omega
  | succ fuel ih =>
    intro fs d hwf hdep hle hf sh
    simp only [shardsOf]
    cases hfd : fs d with
    | none =>
      simp only [List.not_mem_nil, false_iff]
      rintro ⟨x, hx, hsh⟩
      cases hx with
      | refl => simp [filesAt, hfd] at hsh
      | step hget _ _ => rw [hfd] at hget; cases hget
    | some l =>
      simp only [List.mem_append, List.mem_flatMap]
      constructor
      · rintro (h | ⟨c, hc, hsh⟩)
        · exact ⟨d, Reaches.refl _, by simp [filesAt, hfd, h]⟩
        · obtain ⟨y, hy⟩ := (hwf d l hfd).shape c hc
          have hcl : c.dir.length = d.length + 1 := by rw [hy]; simp
          obtain ⟨x, hx, hs⟩ := (ih fs c.dir hwf hdep (hdep d l hfd c hc) (by omega) sh).mp hsh
          exact ⟨x, Reaches.step hfd hc hx, hs⟩
      · rintro ⟨x, hx, hsh⟩
        cases hx with
        | refl => left; simpa [filesAt, hfd] using hsh
        | @step _ _ c l' hget hc hcx =>
          rw [hfd] at hget; cases hget
          obtain ⟨y, hy⟩ := (hwf d l hfd).shape c hc
          have hcl : c.dir.length = d.length + 1 := by rw [hy]; simp
          right
          exact ⟨c, hc, (ih fs c.dir hwf hdep (hdep d l hfd c hc) (by omega) sh).mpr ⟨x, hcx, hsh⟩⟩

def kidsAt (fs : FS) (y : Dir) : List Kid := ((fs y).map (·.kids)).getD []

theorem reaches_of_kidsAt {fs fs' : FS} (h : ∀ y, kidsAt fs y = kidsAt fs' y) {d x : Dir} (hr : Reaches fs d x) : Reaches fs' d x := by
  induction hr with
  | refl d => exact Reaches.refl _
  | @step d x c l hget hc _ ih =>
    have hk : c ∈ kidsAt fs' d := by rw [← h d]; simp [kidsAt, hget, hc]
    cases hfd : fs' d with
    | none => simp [kidsAt, hfd] at hk
    | some l' => exact Reaches.step hfd (by simpa [kidsAt, hfd] using hk) ih

theorem appendShards_kidsAt (fs : FS) (d : Dir) (new : List Shard) (y : Dir) : kidsAt (appendShards fs d new) y = kidsAt fs y := by
  by_cases hyd : y = d
  · subst hyd; simp only [kidsAt, appendShards, set_same]; cases fs y <;> simp
  · simp only [kidsAt, appendShards_other _ _ _ _ hyd]

theorem applyWrites_kidsAt : ∀ (se : Session) (fs : FS) (y : Dir), kidsAt (applyWrites fs se) y = kidsAt fs y := by
  intro se
  induction se with
  | nil => intro fs y; rfl
  | cons w ws ih =>
    intro fs y
    simp only [applyWrites, List.foldl_cons]
    have := ih (appendShards fs w.1 w.2) y
    simp only [applyWrites] at this
    rw [this, appendShards_kidsAt]

/-- the shards a session wrote into directory `x`, in writing order -/
def newAt (se : Session) (x : Dir) : List Shard := (se.filter (fun w => w.1 = x)).flatMap (·.2)

theorem applyWrites_files : ∀ (se : Session) (fs : FS) (x : Dir), filesAt (applyWrites fs se) x = filesAt fs x ++ newAt se x := by
  intro se
  induction se with
  | nil => intro fs x; simp [applyWrites, newAt]
  | cons w ws ih =>
    intro fs x
    simp only [applyWrites, List.foldl_cons]
    have := ih (appendShards fs w.1 w.2) x
    simp only [applyWrites] at this
    rw [this]
    by_cases hwx : w.1 = x
    · subst hwx
      rw [appendShards_files]
      simp [newAt, List.append_assoc]
    · have : filesAt (appendShards fs w.1 w.2) x = filesAt fs x := by
        simp only [filesAt, appendShards_other _ _ _ _ (fun h => hwx h.symm)]
      rw [this]
      simp [newAt, hwx]

theorem applyWrites_exists : ∀ (se : Session) (fs : FS) (x : Dir), applyWrites fs se x ≠ none → fs x ≠ none ∨ ∃ w ∈ se, w.1 = x := by
  intro se
  induction se with
  | nil => intro fs x h; exact Or.inl h
  | cons w ws ih =>
    intro fs x h
    simp only [applyWrites, List.foldl_cons] at h
    rcases ih (appendShards fs w.1 w.2) x (by simpa [applyWrites] using h) with h1 | ⟨w', hw', hx⟩
    · by_cases hwx : w.1 = x
      · exact Or.inr ⟨w, by simp, hwx⟩
      · rw [appendShards_other _ _ _ _ (fun hh => hwx hh.symm)] at h1; exact Or.inl h1
    · exact Or.inr ⟨w', by simp [hw'], hx⟩

/-- every list document that exists is linked into the tree of its split (no leftovers of crashed sessions) -/
def Linked (fs : FS) : Prop := ∀ x, fs x ≠ none → Reaches fs [x.headD 0] x

theorem head_of_single_prefix {s : Nat} {x : Dir} (h : [s] <+: x) : x.headD 0 = s := by
  obtain ⟨t, ht⟩ := h; rw [← ht]; rfl

/-- a completed session keeps the tree free of unlinked lists -/
theorem session_linked (H : SList → Nat) (B fuel : Nat) (hfuel : B < fuel + 1) (hB : 1 ≤ B) (ds : DS) (se : Session)
    (hse : ∀ w ∈ se, w.1 ≠ [] ∧ w.1.length ≤ B) (hg : Good H B ds) (hl : Linked ds.fs) : Linked (session H fuel ds se).fs := by
  obtain ⟨hgood, _, hreach, _, _, hex, hdirs⟩ := session_good H B fuel hfuel hB ds se hse hg
  intro x hx
  rcases hex x hx with h | ⟨s, hs⟩
  · rcases applyWrites_exists se ds.fs x h with h0 | ⟨w, hw, hwx⟩
    · have := hl x h0
      exact hreach _ x (reaches_of_kidsAt (fun y => (applyWrites_kidsAt se ds.fs y).symm) this)
    · rw [← hwx]; exact hdirs w hw
  · have := head_of_single_prefix (hs.prefix hgood.wf)
    rw [this]; exact hs

/-- **A session adds exactly what it wrote.**  In a dataset without unlinked lists, after any completed session the
shards enumerated for a split are exactly those enumerated before plus the shards the session closed in directories of
that split — nothing is lost, nothing else appears. -/
theorem session_adds_exactly (H : SList → Nat) (B fuel : Nat) (hfuel : B < fuel + 1) (hB : 1 ≤ B) (ds : DS) (se : Session)
    (hse : ∀ w ∈ se, w.1 ≠ [] ∧ w.1.length ≤ B) (hg : Good H B ds) (hl : Linked ds.fs) (s : Nat) (sh : Shard) :
    sh ∈ shardsOf fuel (session H fuel ds se).fs [s] ↔
      sh ∈ shardsOf fuel ds.fs [s] ∨ ∃ w ∈ se, w.1.headD 0 = s ∧ sh ∈ w.2 := by
  obtain ⟨hgood, _, hreach, hfiles, hnew, _, hdirs⟩ := session_good H B fuel hfuel hB ds se hse hg
  have hk := fun y => applyWrites_kidsAt se ds.fs y
  rw [mem_shardsOf B fuel _ [s] hgood.wf hgood.depth (by simpa using hB) (by simp; omega) sh,
      mem_shardsOf B fuel _ [s] hg.wf hg.depth (by simpa using hB) (by simp; omega) sh]
  constructor
  · rintro ⟨x, hx, hsh⟩
    rw [hfiles x, applyWrites_files] at hsh
    have hsx : [s] <+: x := hx.prefix hgood.wf
    rcases List.mem_append.mp hsh with hold | hnw
    · -- an old entry of x: x existed before, hence was linked
      left
      have hxe : ds.fs x ≠ none := by intro h0; simp [filesAt, h0] at hold
      have := hl x hxe
      rw [head_of_single_prefix hsx] at this
      exact ⟨x, this, hold⟩
    · right
      simp only [newAt, List.mem_flatMap, List.mem_filter, decide_eq_true_eq] at hnw
      obtain ⟨w, ⟨hw, hwx⟩, hshw⟩ := hnw
      exact ⟨w, hw, by rw [hwx]; exact head_of_single_prefix hsx, hshw⟩
  · rintro (⟨x, hx, hsh⟩ | ⟨w, hw, hws, hsh⟩)
    · refine ⟨x, hreach s x (reaches_of_kidsAt (fun y => (hk y).symm) hx), ?_⟩
      rw [hfiles x, applyWrites_files]; exact List.mem_append_left _ hsh
    · refine ⟨w.1, by rw [← hws]; exact hdirs w hw, ?_⟩
      rw [hfiles w.1, applyWrites_files]
      apply List.mem_append_right
      simp only [newAt, List.mem_flatMap, List.mem_filter, decide_eq_true_eq]
      exact ⟨w, ⟨hw, rfl⟩, hsh⟩

end Sedpack.Tree

namespace Sedpack.Tree

/-! ### no shard is enumerated twice -/

/-- the directories the depth-first walk visits, in visiting order -/
def dirsOf : (fuel : Nat) → FS → Dir → List Dir
  | 0, _, _ => []
  | fuel+1, fs, d =>
    match fs d with
    | none => []
    | some l => d :: l.kids.flatMap (fun c => dirsOf fuel fs c.dir)

theorem shardsOf_eq_flatMap : ∀ (fuel : Nat) (fs : FS) (d : Dir),
    shardsOf fuel fs d = (dirsOf fuel fs d).flatMap (filesAt fs) := by
  intro fuel
  induction fuel with
  | zero => intro fs d; simp [shardsOf, dirsOf]
  | succ fuel ih =>
    intro fs d
    simp only [shardsOf, dirsOf]
    cases hfd : fs d with
    | none => simp
    | some l =>
      simp only [List.flatMap_cons]
      congr 1
      · simp [filesAt, hfd]
      · have key : ∀ ks : List Kid, ks.flatMap (fun c => shardsOf fuel fs c.dir) =
            (ks.flatMap (fun c => dirsOf fuel fs c.dir)).flatMap (filesAt fs) := by
          intro ks
          induction ks with
          | nil => simp
          | cons c cs ihk => simp only [List.flatMap_cons, List.flatMap_append, ihk, ih fs c.dir]
        exact key l.kids

theorem dirsOf_prefix (hwf : WF fs) : ∀ (fuel : Nat) (d x : Dir), x ∈ dirsOf fuel fs d → d <+: x := by
  intro fuel
  induction fuel with
  | zero => intro d x h; simp [dirsOf] at h
  | succ fuel ih =>
    intro d x h
    simp only [dirsOf] at h
    cases hfd : fs d with
    | none => simp [hfd] at h
    | some l =>
      simp only [hfd, List.mem_cons, List.mem_flatMap] at h
      rcases h with h | ⟨c, hc, hx⟩
      · subst h; exact List.prefix_refl _
      · obtain ⟨y, hy⟩ := (hwf d l hfd).shape c hc
        exact prefix_trans' (by rw [hy]; exact List.prefix_append _ _) (ih c.dir x hx)

/-- the walk visits no directory twice (the child records of a list name distinct directories one level below it, so
their sub-trees are disjoint) -/
theorem dirsOf_nodup (hwf : WF fs) : ∀ (fuel : Nat) (d : Dir), (dirsOf fuel fs d).Nodup := by
  intro fuel
  induction fuel with
  | zero => intro d; simp [dirsOf]
  | succ fuel ih =>
    intro d
    simp only [dirsOf]
    cases hfd : fs d with
    | none => simp
    | some l =>
      have hw := hwf d l hfd
      simp only [List.nodup_cons, List.mem_flatMap, not_exists, not_and]
      refine ⟨?_, ?_⟩
      · intro c hc hd
        obtain ⟨y, hy⟩ := hw.shape c hc
        have := dirsOf_prefix hwf fuel c.dir d hd
        rw [hy] at this
        exact not_prefix_of_longer (by simp) this
      · -- the children's walks are pairwise disjoint and each is duplicate-free
        have key : ∀ (ks : List Kid), (∀ c ∈ ks, ∃ y, c.dir = d ++ [y]) → (ks.map (·.dir)).Nodup →
            (ks.flatMap (fun c => dirsOf fuel fs c.dir)).Nodup := by
          intro ks
          induction ks with
          | nil => intro _ _; simp
          | cons c cs ihk =>
            intro hsh hnd
            simp only [List.map_cons, List.nodup_cons] at hnd
            simp only [List.flatMap_cons]
            rw [List.nodup_append]
            refine ⟨ih c.dir, ihk (fun c' hc' => hsh c' (List.mem_cons_of_mem _ hc')) hnd.2, ?_⟩
            intro a ha b hb hab
            subst hab
            simp only [List.mem_flatMap] at hb
            obtain ⟨c', hc', hb'⟩ := hb
            obtain ⟨y, hy⟩ := hsh c List.mem_cons_self
            obtain ⟨y', hy'⟩ := hsh c' (List.mem_cons_of_mem _ hc')
            have h1 := dirsOf_prefix hwf fuel c.dir a ha
            have h2 := dirsOf_prefix hwf fuel c'.dir a hb'
            rw [hy] at h1; rw [hy'] at h2
            by_cases hyy : y = y'
            · apply hnd.1
              rw [hy, hyy, ← hy']
              exact List.mem_map.mpr ⟨c', hc', rfl⟩
            · exact prefix_snoc_ne hyy h1 h2
        exact key l.kids hw.shape hw.nodup

/-- **No shard file is listed twice.** If the names of all shard files recorded anywhere in the store are pairwise
distinct (shard files get fresh names), then no name is enumerated twice. -/
theorem shardsOf_names_nodup (hwf : WF fs) (fuel : Nat) (d : Dir)
    (hdist : ∀ x y (s t : Shard), s ∈ filesAt fs x → t ∈ filesAt fs y → s.file = t.file → x = y)
    (hlocal : ∀ x, ((filesAt fs x).map (·.file)).Nodup) :
    ((shardsOf fuel fs d).map (·.file)).Nodup := by
  rw [shardsOf_eq_flatMap]
  have hnd := dirsOf_nodup hwf fuel d
  generalize dirsOf fuel fs d = ds at hnd
  induction ds with
  | nil => simp
  | cons x xs ih =>
    simp only [List.nodup_cons] at hnd
    simp only [List.flatMap_cons, List.map_append]
    rw [List.nodup_append]
    refine ⟨hlocal x, ih hnd.2, ?_⟩
    intro a ha b hb hab
    subst hab
    simp only [List.mem_map] at ha hb
    obtain ⟨s, hs, hsa⟩ := ha
    obtain ⟨t, ht, hta⟩ := hb
    simp only [List.mem_flatMap] at ht
    obtain ⟨y, hy, hty⟩ := ht
    have := hdist x y s t hs hty (by rw [hsa, hta])
    exact hnd.1 (this ▸ hy)

end Sedpack.Tree

namespace Sedpack.Tree

/-- shard file names are distinct within every list and across lists -/
structure NamesOK (fs : FS) : Prop where
  dist : ∀ x y (s t : Shard), s ∈ filesAt fs x → t ∈ filesAt fs y → s.file = t.file → x = y
  loc : ∀ x, ((filesAt fs x).map (·.file)).Nodup

/-- the shards a session closes carry names that are new and pairwise distinct (uuid4) -/
structure FreshSession (fs : FS) (se : Session) : Prop where
  unused : ∀ w ∈ se, ∀ s ∈ w.2, ∀ x, ∀ t ∈ filesAt fs x, s.file ≠ t.file
  distinct : ((se.flatMap (·.2)).map (·.file)).Nodup

theorem newAt_sublist (se : Session) (x : Dir) : (newAt se x).Sublist (se.flatMap (·.2)) := by
  induction se with
  | nil => simp [newAt]
  | cons w ws ih =>
    simp only [newAt, List.filter_cons, List.flatMap_cons]
    split
    · simp only [List.flatMap_cons]
      exact List.Sublist.append (List.Sublist.refl _) (by simpa [newAt] using ih)
    · exact List.Sublist.trans (by simpa [newAt] using ih) (List.sublist_append_right _ _)

theorem mem_newAt {se : Session} {x : Dir} {s : Shard} : s ∈ newAt se x ↔ ∃ w ∈ se, w.1 = x ∧ s ∈ w.2 := by
  simp only [newAt, List.mem_flatMap, List.mem_filter, decide_eq_true_eq]
  constructor
  · rintro ⟨w, ⟨hw, hwx⟩, hs⟩; exact ⟨w, hw, hwx, hs⟩
  · rintro ⟨w, hw, hwx, hs⟩; exact ⟨w, ⟨hw, hwx⟩, hs⟩

/-- in a duplicate-free concatenation an element name identifies the entry it came from -/
theorem entry_of_name : ∀ (se : Session), ((se.flatMap (·.2)).map (·.file)).Nodup →
    ∀ w ∈ se, ∀ w' ∈ se, ∀ s ∈ w.2, ∀ t ∈ w'.2, s.file = t.file → w.1 = w'.1 := by
  intro se
  induction se with
  | nil => intro _ w hw; simp at hw
  | cons a as ih =>
    intro hnd w hw w' hw' s hs t ht hst
    simp only [List.flatMap_cons, List.map_append] at hnd
    rw [List.nodup_append] at hnd
    obtain ⟨_, h2, h3⟩ := hnd
    simp only [List.mem_cons] at hw hw'
    have inrest : ∀ (v : Dir × List Shard) (u : Shard), v ∈ as → u ∈ v.2 → u.file ∈ (as.flatMap (·.2)).map (·.file) :=
      fun v u hv hu => List.mem_map.mpr ⟨u, List.mem_flatMap.mpr ⟨v, hv, hu⟩, rfl⟩
    rcases hw with rfl | hw <;> rcases hw' with rfl | hw'
    · rfl
    · exact absurd hst (fun h => h3 s.file (List.mem_map.mpr ⟨s, hs, rfl⟩) t.file (inrest w' t hw' ht) h)
    · exact absurd hst.symm (fun h => h3 t.file (List.mem_map.mpr ⟨t, ht, rfl⟩) s.file (inrest w s hw hs) h)
    · exact ih h2 w hw w' hw' s hs t ht hst

/-- appending the freshly named shards of a session keeps all names distinct -/
theorem namesOK_applyWrites (fs : FS) (se : Session) (hn : NamesOK fs) (hf : FreshSession fs se) : NamesOK (applyWrites fs se) := by
  constructor
  · intro x y s t hs ht hst
    rw [applyWrites_files] at hs ht
    rcases List.mem_append.mp hs with hs | hs <;> rcases List.mem_append.mp ht with ht | ht
    · exact hn.dist x y s t hs ht hst
    · obtain ⟨w, hw, _, htw⟩ := mem_newAt.mp ht
      exact absurd hst.symm (hf.unused w hw t htw x s hs)
    · obtain ⟨w, hw, _, hsw⟩ := mem_newAt.mp hs
      exact absurd hst (hf.unused w hw s hsw y t ht)
    · obtain ⟨w, hw, hwx, hsw⟩ := mem_newAt.mp hs
      obtain ⟨w', hw', hwy, htw⟩ := mem_newAt.mp ht
      rw [← hwx, ← hwy]
      exact entry_of_name se hf.distinct w hw w' hw' s hsw t htw hst
  · intro x
    rw [applyWrites_files, List.map_append, List.nodup_append]
    refine ⟨hn.loc x, ((newAt_sublist se x).map _).nodup hf.distinct, ?_⟩
    intro a ha b hb hab
    subst hab
    obtain ⟨s, hs, rfl⟩ := List.mem_map.mp ha
    obtain ⟨t, ht, hts⟩ := List.mem_map.mp hb
    obtain ⟨w, hw, _, htw⟩ := mem_newAt.mp ht
    exact hf.unused w hw t htw x s hs hts

/-- a completed session with freshly named shards keeps all names distinct (the merge never touches shard entries) -/
theorem session_namesOK (H : SList → Nat) (B fuel : Nat) (hfuel : B < fuel + 1) (hB : 1 ≤ B) (ds : DS) (se : Session)
    (hse : ∀ w ∈ se, w.1 ≠ [] ∧ w.1.length ≤ B) (hg : Good H B ds) (hn : NamesOK ds.fs) (hf : FreshSession ds.fs se) :
    NamesOK (session H fuel ds se).fs := by
  obtain ⟨_, _, _, hfiles, _⟩ := session_good H B fuel hfuel hB ds se hse hg
  have h := namesOK_applyWrites ds.fs se hn hf
  exact ⟨fun x y s t hs ht => h.dist x y s t (by rwa [← hfiles x]) (by rwa [← hfiles y]), fun x => by rw [hfiles x]; exact h.loc x⟩

end Sedpack.Tree

namespace Sedpack.Tree

theorem nodup_of_map {α β} (f : α → β) : ∀ (l : List α), (l.map f).Nodup → l.Nodup := by
  intro l
  induction l with
  | nil => intro _; simp
  | cons a as ih =>
    intro h
    simp only [List.map_cons, List.nodup_cons] at h
    simp only [List.nodup_cons]
    exact ⟨fun ha => h.1 (List.mem_map.mpr ⟨a, ha, rfl⟩), ih h.2⟩

/-- the shards a session closed for split `s` (in all its directories), in session order -/
def newFor (se : Session) (s : Nat) : List Shard := (se.filter (fun w => w.1.headD 0 = s)).flatMap (·.2)

theorem mem_newFor {se : Session} {s : Nat} {sh : Shard} : sh ∈ newFor se s ↔ ∃ w ∈ se, w.1.headD 0 = s ∧ sh ∈ w.2 := by
  simp only [newFor, List.mem_flatMap, List.mem_filter, decide_eq_true_eq]
  constructor
  · rintro ⟨w, ⟨hw, hws⟩, hs⟩; exact ⟨w, hw, hws, hs⟩
  · rintro ⟨w, hw, hws, hs⟩; exact ⟨w, ⟨hw, hws⟩, hs⟩

theorem newFor_sublist (se : Session) (s : Nat) : (newFor se s).Sublist (se.flatMap (·.2)) := by
  induction se with
  | nil => simp [newFor]
  | cons w ws ih =>
    simp only [newFor, List.filter_cons, List.flatMap_cons]
    split
    · simp only [List.flatMap_cons]
      exact List.Sublist.append (List.Sublist.refl _) (by simpa [newFor] using ih)
    · exact List.Sublist.trans (by simpa [newFor] using ih) (List.sublist_append_right _ _)

/-- **A session adds exactly what it wrote, as a multiset** (each shard once): with freshly named shards, what the walk
enumerates for split `s` afterwards is a permutation of what it enumerated before followed by the session's shards for `s`. -/
theorem session_perm (H : SList → Nat) (B fuel : Nat) (hfuel : B < fuel + 1) (hB : 1 ≤ B) (ds : DS) (se : Session)
    (hse : ∀ w ∈ se, w.1 ≠ [] ∧ w.1.length ≤ B) (hg : Good H B ds) (hl : Linked ds.fs) (hn : NamesOK ds.fs) (hf : FreshSession ds.fs se)
    (s : Nat) :
    (shardsOf fuel (session H fuel ds se).fs [s]).Perm (shardsOf fuel ds.fs [s] ++ newFor se s) := by
  have hgood := (session_good H B fuel hfuel hB ds se hse hg).1
  have hn' := session_namesOK H B fuel hfuel hB ds se hse hg hn hf
  have nd1 : (shardsOf fuel (session H fuel ds se).fs [s]).Nodup :=
    nodup_of_map (·.file) _ (shardsOf_names_nodup hgood.wf fuel [s] hn'.dist hn'.loc)
  have nd0 : (shardsOf fuel ds.fs [s]).Nodup := nodup_of_map (·.file) _ (shardsOf_names_nodup hg.wf fuel [s] hn.dist hn.loc)
  have ndn : (newFor se s).Nodup := (newFor_sublist se s).nodup (nodup_of_map (·.file) _ hf.distinct)
  have nd2 : (shardsOf fuel ds.fs [s] ++ newFor se s).Nodup := by
    rw [List.nodup_append]
    refine ⟨nd0, ndn, ?_⟩
    intro a ha b hb hab
    subst hab
    obtain ⟨w, hw, _, haw⟩ := mem_newFor.mp hb
    obtain ⟨x, _, hax⟩ := (mem_shardsOf B fuel ds.fs [s] hg.wf hg.depth (by simpa using hB) (by simp; omega) a).mp ha
    exact hf.unused w hw a haw x a hax rfl
  rw [List.perm_ext_iff_of_nodup nd1 nd2]
  intro sh
  rw [session_adds_exactly H B fuel hfuel hB ds se hse hg hl s sh, List.mem_append, mem_newFor]

theorem perm_flatMap {α β} (f : α → List β) {l₁ l₂ : List α} (h : l₁.Perm l₂) : (l₁.flatMap f).Perm (l₂.flatMap f) := by
  rw [List.flatMap_def, List.flatMap_def]
  exact (h.map f).flatten

end Sedpack.Tree
