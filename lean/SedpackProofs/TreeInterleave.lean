import SedpackProofs.TreeSession
/-! Effects of concurrent writers on the store commute when their footprints are disjoint. -/
namespace Sedpack.Tree

/-- one `close_shard` of some writer: a shard appended to the list of directory `dir` -/
structure Eff where
  writer : Nat
  dir : Dir
  shard : Shard
deriving DecidableEq, Repr

def applyEff (fs : FS) (e : Eff) : FS := appendShards fs e.dir [e.shard]
def applyEffs (fs : FS) (es : List Eff) : FS := es.foldl applyEff fs

theorem applyEff_other (fs : FS) (e : Eff) (x : Dir) (h : x ≠ e.dir) : applyEff fs e x = fs x :=
  appendShards_other fs e.dir x [e.shard] h

/-- the list stored at `x` after a sequence of effects depends only on the effects aimed at `x` -/
theorem applyEffs_local (x : Dir) : ∀ (es : List Eff) (fs : FS),
    applyEffs fs es x = applyEffs fs (es.filter (fun e => e.dir = x)) x := by
  intro es
  induction es with
  | nil => intro fs; rfl
  | cons e es ih =>
    intro fs
    simp only [applyEffs, List.foldl_cons] at ih ⊢
    by_cases h : e.dir = x
    · simp only [List.filter_cons, h, decide_true, if_true, List.foldl_cons]
      exact ih (applyEff fs e)
    · have hd : decide (e.dir = x) = false := by simpa using h
      simp only [List.filter_cons, hd]
      rw [ih (applyEff fs e)]
      -- the skipped effect does not touch x, and later effects at x only read the list at x
      have key : ∀ (l : List Eff) (f g : FS), f x = g x → (∀ e' ∈ l, e'.dir = x) →
          l.foldl applyEff f x = l.foldl applyEff g x := by
        intro l
        induction l with
        | nil => intro f g hfg _; exact hfg
        | cons a as iha =>
          intro f g hfg hall
          simp only [List.foldl_cons]
          apply iha
          · have ha := hall a List.mem_cons_self
            simp only [applyEff, appendShards, ha, set_same, hfg]
          · intro e' he'; exact hall e' (List.mem_cons_of_mem _ he')
      exact key _ _ _ (applyEff_other fs e x (fun hx => h hx.symm)) (by intro e' he'; simpa using (List.mem_filter.mp he').2)

/-- **Interleavings commute.** Two effect sequences that agree, directory by directory, on the
sub-sequence of effects aimed at that directory produce the same store. -/
theorem applyEffs_eq_of_filter_eq (fs : FS) (es₁ es₂ : List Eff)
    (h : ∀ x, es₁.filter (fun e => e.dir = x) = es₂.filter (fun e => e.dir = x)) :
    applyEffs fs es₁ = applyEffs fs es₂ := by
  funext x
  rw [applyEffs_local x es₁ fs, applyEffs_local x es₂ fs, h x]

/-- `il` is an interleaving of the per-writer sequences `ws` (writer `i` is `ws[i]`): projecting
`il` onto any writer gives back that writer's own sequence -/
def IsInterleaving (ws : List (List Eff)) (il : List Eff) : Prop :=
  (∀ e ∈ il, e.writer < ws.length) ∧ ∀ i, il.filter (fun e => e.writer = i) = ws.getD i []

/-- each writer only writes into its own directories (distinct random sub-directories) -/
def OwnDirs (ws : List (List Eff)) : Prop :=
  (∀ i, ∀ e ∈ ws.getD i [], e.writer = i) ∧
  ∀ i j, i ≠ j → ∀ e ∈ ws.getD i [], ∀ f ∈ ws.getD j [], e.dir ≠ f.dir

theorem filter_flatten_unique (p : Eff → Bool) : ∀ (ws : List (List Eff)) (i : Nat),
    (∀ j, j ≠ i → ∀ f ∈ ws.getD j [], p f = false) → ws.flatten.filter p = (ws.getD i []).filter p := by
  intro ws
  induction ws with
  | nil => intro i _; simp
  | cons a as ih =>
    intro i h
    simp only [List.flatten_cons, List.filter_append]
    cases i with
    | zero =>
      have hrest : as.flatten.filter p = [] := by
        rw [List.filter_eq_nil_iff]
        intro f hf
        rw [List.mem_flatten] at hf
        obtain ⟨l, hl, hfl⟩ := hf
        obtain ⟨j, hj, hlj⟩ := List.getElem_of_mem hl
        have := h (j + 1) (by omega) f (by simp [List.getD, hj, hlj, hfl])
        simp [this]
      rw [hrest]; simp [List.getD]
    | succ i' =>
      have ha : a.filter p = [] := by
        rw [List.filter_eq_nil_iff]
        intro f hf
        have := h 0 (by omega) f (by simpa [List.getD] using hf)
        simp [this]
      rw [ha, ih i' (fun j hj f hf => h (j + 1) (by omega) f (by simpa [List.getD] using hf))]
      simp [List.getD]

theorem filter_dir_of_interleaving (ws : List (List Eff)) (hown : OwnDirs ws) (il : List Eff)
    (hil : IsInterleaving ws il) (x : Dir) :
    il.filter (fun e => e.dir = x) = ws.flatten.filter (fun e => e.dir = x) := by
  by_cases hex : ∃ e ∈ il, e.dir = x
  · obtain ⟨e0, he0, hx⟩ := hex
    -- in `il`, effects at x all belong to the writer of e0
    have hi_mem : e0 ∈ ws.getD e0.writer [] := by
      rw [← hil.2 e0.writer]; exact List.mem_filter.mpr ⟨he0, by simp⟩
    have h1 : il.filter (fun e => e.dir = x) = (ws.getD e0.writer []).filter (fun e => e.dir = x) := by
      rw [← hil.2 e0.writer, List.filter_filter]
      apply List.filter_congr
      intro e he
      by_cases hd : e.dir = x
      · have : e.writer = e0.writer := by
          rcases Nat.decEq e.writer e0.writer with hne | heq
          · exfalso
            have hemem : e ∈ ws.getD e.writer [] := by
              rw [← hil.2 e.writer]; exact List.mem_filter.mpr ⟨he, by simp⟩
            exact hown.2 e.writer e0.writer hne e hemem e0 hi_mem (by rw [hd, hx])
          · exact heq
        simp [hd, this]
      · simp [hd]
    have h2 := filter_flatten_unique (fun e => decide (e.dir = x)) ws e0.writer (fun j hj f hf => by
      simp only [decide_eq_false_iff_not]
      intro hfx
      exact hown.2 j e0.writer hj f hf e0 hi_mem (by rw [hfx, hx]))
    rw [h1, h2]
  · -- nobody writes to x
    have h1 : il.filter (fun e => e.dir = x) = [] := by
      rw [List.filter_eq_nil_iff]; intro e he hd; exact hex ⟨e, he, by simpa using hd⟩
    have h2 : ws.flatten.filter (fun e => e.dir = x) = [] := by
      rw [List.filter_eq_nil_iff]
      intro f hf hd
      rw [List.mem_flatten] at hf
      obtain ⟨l, hl, hfl⟩ := hf
      obtain ⟨i, hi, hli⟩ := List.getElem_of_mem hl
      have hfi : f ∈ ws.getD i [] := by simp [List.getD, hi, hli, hfl]
      have : f ∈ il := by
        have := hil.2 i
        have hm : f ∈ il.filter (fun e => e.writer = i) := by rw [this]; exact hfi
        exact (List.mem_filter.mp hm).1
      exact hex ⟨f, this, by simpa using hd⟩
    rw [h1, h2]

/-- **Parallel writers = sequential writers.** Every interleaving of writers with pairwise disjoint
directories leaves exactly the store that running them one after another leaves. -/
theorem interleaving_eq_sequential (fs : FS) (ws : List (List Eff)) (hown : OwnDirs ws) (il : List Eff)
    (hil : IsInterleaving ws il) : applyEffs fs il = applyEffs fs ws.flatten :=
  applyEffs_eq_of_filter_eq fs il ws.flatten (filter_dir_of_interleaving ws hown il hil)

end Sedpack.Tree
