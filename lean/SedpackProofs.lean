import SedpackProofs.Hash
import SedpackProofs.Filler
import SedpackProofs.PoolThm
import SedpackProofs.Pipe
import SedpackProofs.TreeSession
import SedpackProofs.TreeCheck
import SedpackProofs.TreeInterleave
import SedpackProofs.Crash
