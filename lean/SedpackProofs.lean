import SedpackProofs.Hash
