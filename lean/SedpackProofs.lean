import SedpackProofs.Hash
import SedpackProofs.Filler
