import SedpackDriver.Util
import SedpackDriver.Hash
import SedpackDriver.Filler
import SedpackDriver.Pool
import SedpackDriver.Iter
import SedpackDriver.Tree
import SedpackDriver.Crash
import SedpackDriver.Select
import SedpackDriver.Path
import SedpackDriver.Version
import SedpackDriver.ParMap
import SedpackDriver.Codec
import SedpackDriver.Writer
import SedpackDriver.Reg
import SedpackDriver.HashConc
import SedpackDriver.Par
open Lean
namespace Sedpack.Drv

def dispatch (m : String) (j : Json) : Except String Json :=
  match m with
  | "hash" => hash j
  | "fill" => fill j
  | "pool" => pool j
  | "mpool" => mpool j
  | "sb" => sb j
  | "rr" => rr j
  | "batches" => batchesJ j
  | "tree" => tree j
  | "check" => checkJ j
  | "installs" => installsJ j
  | "crash" => crash j
  | "select" => selectJ j
  | "path" => pathJ j
  | "ver" => verJ j
  | "defaults" => defaultsJ j
  | "pmap" => pmapJ j
  | "pmaptrace" => pmapTraceJ j
  | "pmapfault" => pmapFaultJ j
  | "codec" => codecJ j
  | "writer" => writerJ j
  | "reg" => regJ j
  | "hashconc" => hashConcJ j
  | "parval" => parValJ j
  | _ => .error s!"unknown model {m}"

end Sedpack.Drv
