import SedpackDriver.Util
import SedpackDriver.Hash
open Lean
namespace Sedpack.Drv

def dispatch (m : String) (j : Json) : Except String Json :=
  match m with
  | "hash" => hash j
  | _ => .error s!"unknown model {m}"

end Sedpack.Drv
