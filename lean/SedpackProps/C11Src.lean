import SedpackProps.SrcGen
/-!
# C11 — the label a shard receives is a *copy*, in the current source

M-FILL attaches metadata by value (`C11_md_labels`); `C11_reference_semantics_witness` shows that attaching the caller's object
itself breaks the property as soon as the caller changes that object in place.  Re-checked against the source text extracted on
this run: what `write_example` assigns to the open shard's `custom_metadata` went through `deepcopy` first.
-/
namespace Sedpack.Src

/-- the value assigned to the shard's label is produced by `deepcopy`, immediately before the assignment -/
theorem C11_src_label_is_deep_copy :
    (allBefore writeExample "deepcopy" "set:custom_metadata"
      && (last writeExample "deepcopy").map (· + 1) == first writeExample "set:custom_metadata") = true := by decide +kernel
/-- the label is attached only after the example was accepted by the shard (shared with C18) -/
theorem C11_src_label_after_write : allBefore writeExample "write" "set:custom_metadata" = true := by decide +kernel
/-- whether the metadata changed is decided (`!=`) before any roll-over and before the write -/
theorem C11_src_change_test_first :
    (allBefore writeExample "cmp:NotEq" "close_shard" && allBefore writeExample "cmp:NotEq" "write") = true := by decide +kernel

/-- "selecting shards by metadata": the selection is recomputed from the shard infos on every call — the predicate is applied
(`filter`) to what `shard_info_iterator` enumerates now, and nothing is remembered on the dataset object between selections -/
theorem C11_src_selection_recomputed :
    (shardPathsDataset.head? == some "shard_info_iterator" && allBefore shardPathsDataset "shard_info_iterator" "filter"
      && !hasSelfStore shardPathsDataset && !hasSelfStore asNumpyCommon) = true := by decide +kernel

end Sedpack.Src
