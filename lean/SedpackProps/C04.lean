import SedpackProofs.TreeSession
import SedpackProofs.TreeEnum
import SedpackProps.C10
/-!
# C04 — Shard-list metadata always accounts exactly for what is stored

Over M-TREE (`SedpackModel/Tree.lean`).  `Exact H fs info` is the inductive statement of "the
metadata tree below `info` is exact": the list document exists and has the recorded digest, its
total is the sum over its shard entries and child records, its shard count is own files plus the
children's recorded counts, child records lie one directory level deeper in pairwise different
directories, and every child record is exact in turn.  Quantifiers: every store satisfying the
invariants, every tree depth (`B` is any bound on the deepest directory), every set of updates,
every history of sessions (root / fresh / reused / nested sub-directory fillers and multi-writer
calls are all `Session`s: lists of (directory, closed shards)).
Per-shard counts (`n = |stored examples|`) are C10's `C10_shard_size_bounds` over M-FILL.
-/
namespace Sedpack.Tree

/-- **merge_spec.** The recursive merge returns an exact info for its directory, changes nothing
outside that directory's sub-tree, never changes any list's shard files, keeps every previously
reachable directory reachable, makes every update reachable, and re-establishes the invariants. -/
theorem C04_merge_exact (H : SList → Nat) (B fuel : Nat) (fs : FS) (d : Dir) (us : List Kid)
    (hfuel : B < fuel + d.length) (hpre : Pre B fs d us) :
    Exact H (merge H fuel fs d us).1 (merge H fuel fs d us).2 ∧ (merge H fuel fs d us).2.dir = d ∧
    WF (merge H fuel fs d us).1 ∧
    (∀ x, ¬ d <+: x → (merge H fuel fs d us).1 x = fs x) := by
  have h := merge_spec H B fuel fs d us hfuel hpre
  exact ⟨h.exact, h.dir, h.wf, h.frame⟩

/-- **A completed session keeps every split exact** — appended shards plus the per-split merges of
`write_config`; splits the session did not write to are untouched. -/
theorem C04_session_exact (H : SList → Nat) (B fuel : Nat) (hfuel : B < fuel + 1) (hB : 1 ≤ B) (ds : DS) (se : Session)
    (hse : ∀ w ∈ se, w.1 ≠ [] ∧ w.1.length ≤ B) (hg : Good H B ds) : Good H B (session H fuel ds se) :=
  (session_good H B fuel hfuel hB ds se hse hg).1

/-- **Every history.** Starting from the empty dataset, after any sequence of completed sessions
every split recorded in the description is exact. -/
theorem C04_history_exact (H : SList → Nat) (B fuel : Nat) (hfuel : B < fuel + 1) (hB : 1 ≤ B)
    (hist : List Session) (hh : ∀ se ∈ hist, ∀ w ∈ se, w.1 ≠ [] ∧ w.1.length ≤ B) :
    Good H B (hist.foldl (session H fuel) { fs := fun _ => none, splits := fun _ => none }) := by
  have key : ∀ (hist : List Session) (ds : DS), (∀ se ∈ hist, ∀ w ∈ se, w.1 ≠ [] ∧ w.1.length ≤ B) → Good H B ds →
      Good H B (hist.foldl (session H fuel) ds) := by
    intro hist
    induction hist with
    | nil => intro ds _ h; exact h
    | cons se rest ih =>
      intro ds hh hg
      simp only [List.foldl_cons]
      exact ih _ (fun se' h' => hh se' (List.mem_cons_of_mem _ h'))
        (C04_session_exact H B fuel hfuel hB ds se (hh se List.mem_cons_self) hg)
  apply key hist _ hh
  exact ⟨fun d l h => by simp at h, fun d l h => by simp at h, fun s k h => by simp at h⟩

/-- the split a session wrote to is present in the description afterwards -/
theorem C04_touched_split_recorded (H : SList → Nat) (B fuel : Nat) (hfuel : B < fuel + 1) (hB : 1 ≤ B) (ds : DS)
    (se : Session) (hse : ∀ w ∈ se, w.1 ≠ [] ∧ w.1.length ≤ B) (hg : Good H B ds) :
    ∀ w ∈ se, ∃ k, (session H fuel ds se).splits (w.1.headD 0) = some k :=
  (session_good H B fuel hfuel hB ds se hse hg).2.1

/-- **Recorded totals are the true totals.** For an exact info, the recorded example count is the
sum of the recorded counts of all shards the enumeration visits, and the recorded shard count is
their number. -/
theorem C04_counts (H : SList → Nat) (B fuel : Nat) (fs : FS) (k : Kid) (hex : Exact H fs k) (hd : DepthOK fs B)
    (hle : k.dir.length ≤ B) (hf : B < fuel + k.dir.length) :
    sumF (shardsOf fuel fs k.dir) = k.n ∧ (shardsOf fuel fs k.dir).length = k.shards :=
  exact_counts H B fuel fs k hex hd hle hf

/-- every shard a session closed is listed afterwards, in the directory it was written to, after
the shards that were already there (nothing is listed twice by the merge, nothing dropped) -/
theorem C04_written_listed (H : SList → Nat) (B fuel : Nat) (hfuel : B < fuel + 1) (hB : 1 ≤ B) (ds : DS)
    (d : Dir) (new : List Shard) (hd : d ≠ [] ∧ d.length ≤ B) (hg : Good H B ds) :
    filesAt (session H fuel ds [(d, new)]).fs d = filesAt ds.fs d ++ new := by
  have h := (session_good H B fuel hfuel hB ds [(d, new)] (by simpa using hd) hg).2.2.2.1 d
  rw [h]
  simp only [applyWrites, List.foldl_cons, List.foldl_nil]
  exact appendShards_files _ _ _

/-! ## C03's tree facts: enumeration order -/

/-- every session of the history names its shards freshly (relative to the dataset it continues) -/
def FreshHistory (H : SList → Nat) (fuel : Nat) : DS → List Session → Prop
  | _, [] => True
  | ds, se :: rest => FreshSession ds.fs se ∧ FreshHistory H fuel (session H fuel ds se) rest

/-- **No shard file is listed twice, none is left unlisted** — after every history of completed sessions whose shard files
carry fresh names (uuid4): what the depth-first walk enumerates for a split contains no file name twice, and it contains every
shard any session of the history closed for that split (`C08_session_adds_exactly` gives the converse: nothing else). -/
theorem C04_no_shard_listed_twice (H : SList → Nat) (B fuel : Nat) (hfuel : B < fuel + 1) (hB : 1 ≤ B) :
    ∀ (hist : List Session) (ds : DS), Good H B ds → NamesOK ds.fs → (∀ se ∈ hist, ∀ w ∈ se, w.1 ≠ [] ∧ w.1.length ≤ B) →
      FreshHistory H fuel ds hist →
      ∀ s, ((shardsOf fuel (hist.foldl (session H fuel) ds).fs [s]).map (·.file)).Nodup := by
  intro hist
  induction hist with
  | nil =>
    intro ds hg hn _ _ s
    exact shardsOf_names_nodup hg.wf fuel [s] hn.dist hn.loc
  | cons se rest ih =>
    intro ds hg hn hh hfresh s
    simp only [List.foldl_cons]
    have hse := hh se List.mem_cons_self
    exact ih _ (session_good H B fuel hfuel hB ds se hse hg).1 (session_namesOK H B fuel hfuel hB ds se hse hg hn hfresh.1)
      (fun se' h' => hh se' (List.mem_cons_of_mem _ h')) hfresh.2 s

/-- the empty dataset satisfies the hypotheses of `C04_no_shard_listed_twice` -/
theorem C04_empty_namesOK : NamesOK (fun _ => none : FS) :=
  ⟨fun x _ s _ hs => by simp [filesAt] at hs, fun x => by simp [filesAt]⟩

theorem C04_every_written_shard_is_enumerated (H : SList → Nat) (B fuel : Nat) (hfuel : B < fuel + 1) (hB : 1 ≤ B) (ds : DS)
    (se : Session) (hse : ∀ w ∈ se, w.1 ≠ [] ∧ w.1.length ≤ B) (hg : Good H B ds) (hl : Linked ds.fs)
    (w : Dir × List Shard) (hw : w ∈ se) (sh : Shard) (hsh : sh ∈ w.2) :
    sh ∈ shardsOf fuel (session H fuel ds se).fs [w.1.headD 0] :=
  (session_adds_exactly H B fuel hfuel hB ds se hse hg hl (w.1.headD 0) sh).mpr (Or.inr ⟨w, hw, rfl, hsh⟩)

/-- `_shard_info_iterator`: own shard files in list order, then the children depth-first in the
order of the child records -/
theorem C03_iter_order (fuel : Nat) (fs : FS) (d : Dir) (l : SList) (h : fs d = some l) :
    shardsOf (fuel+1) fs d = l.files ++ l.kids.flatMap (fun c => shardsOf fuel fs c.dir) := by
  simp [shardsOf, h]

/-- the child records written by one merge are in first-occurrence order of
(updates in argument order, then the previously known children) -/
theorem C03_merge_keeps_update_order (H : SList → Nat) (B fuel : Nat) (fs : FS) (d : Dir) (us : List Kid)
    (hfuel : B < fuel + d.length) (hpre : Pre B fs d us) :
    ∃ l', (merge H fuel fs d us).1 d = some l' ∧ l'.kids.map (·.dir) =
      (groupBy d.length (us.filter (fun u => u.dir.length > d.length) ++ ((fs d).getD {}).kids)).map (fun g => d ++ [g.1]) :=
  (merge_spec H B fuel fs d us hfuel hpre).kidsOrder

/-! ## Non-vacuity and the pinned assertion (D1) -/

def H0 (l : SList) : Nat := 1000 + l.n + 7 * l.files.length

/-- two sessions into the *same* sub-directory `train/a` (the scenario on which the pinned code's
`assert len(current_level) <= 1` fired): the model — like the repaired code — treats the known child
and the update as the same file; totals 5 then 7. -/
example :
    let s1 : Session := [([0, 1], [⟨10, 3, [1, 2, 3], 0, 0⟩]), ([0, 2], [⟨11, 2, [4, 5], 0, 0⟩])]
    let s2 : Session := [([0, 1], [⟨12, 2, [6, 7], 0, 0⟩])]
    let ds1 := session H0 4 { fs := fun _ => none, splits := fun _ => none } s1
    let ds2 := session H0 4 ds1 s2
    ((ds1.splits 0).map (fun k => (k.n, k.shards)), (ds2.splits 0).map (fun k => (k.n, k.shards)),
      (ds2.fs [0]).map (fun l => l.kids.map (fun c => (c.dir, c.n, c.shards))))
      = (some (5, 2), some (7, 3), some [([0, 1], 5, 2), ([0, 2], 2, 1)]) := by
  decide

end Sedpack.Tree
