import SedpackModel.Version
import SedpackProps.C17
/-!
# C20 — Reopening or relocating restores the full dataset; newer formats are refused

*Version gate*: for **all** version triples, a dataset loads iff its recorded version is not newer
than the running one.  *Defaults*: dumping a document without its default-valued fields and
loading it with the same defaults restores it, for every value of every field.  *Relocation*:
every stored path is relative; the location of a file under a root is the root followed by the
path's own components (C17), so the relative layout — all the model operations of C04/C05/C08
depend on — is the same under every root.  JSON text fidelity of pydantic-core is an external,
exercised by the harness.
-/
namespace Sedpack.Ver

/-- the gate refuses exactly the strictly newer versions -/
theorem C20_gate (recorded running : V) : loads recorded running = false ↔ newer recorded running := by
  unfold loads cmp newer
  by_cases h1 : recorded.major < running.major <;> by_cases h2 : recorded.major > running.major <;>
  by_cases h3 : recorded.minor < running.minor <;> by_cases h4 : recorded.minor > running.minor <;>
  by_cases h5 : recorded.patch < running.patch <;> by_cases h6 : recorded.patch > running.patch <;>
  simp [h1, h2, h3, h4, h5, h6] <;> omega

/-- the same version and every older version load -/
theorem C20_same_or_older_loads (recorded running : V) (h : ¬ newer recorded running) : loads recorded running = true := by
  cases hl : loads recorded running with
  | true => rfl
  | false => exact absurd ((C20_gate recorded running).mp hl) h

/-- numeric, not textual: `0.0.10` is newer than `0.0.7` and is refused -/
example : loads ⟨0, 0, 10⟩ ⟨0, 0, 7⟩ = false ∧ loads ⟨0, 0, 7⟩ ⟨0, 0, 7⟩ = true ∧ loads ⟨0, 0, 6⟩ ⟨0, 0, 7⟩ = true ∧
    loads ⟨0, 1, 0⟩ ⟨0, 0, 7⟩ = false ∧ loads ⟨1, 0, 0⟩ ⟨0, 9, 9⟩ = false := by decide

theorem lookup_none_of_not_mem : ∀ (doc : List (Nat × Nat)) (f : Nat), f ∉ doc.map (·.1) → lookup doc f = none := by
  intro doc
  induction doc with
  | nil => intro f _; rfl
  | cons p ps ih =>
    intro f h
    simp only [List.map_cons, List.mem_cons, not_or] at h
    have : ¬ p.1 = f := fun e => h.1 e.symm
    simp [lookup, this, ih f h.2]

theorem lookup_dump_keys (dflt : Nat → Nat) : ∀ (doc : List (Nat × Nat)) (f : Nat), f ∉ doc.map (·.1) →
    lookup (dump dflt doc) f = none := by
  intro doc
  induction doc with
  | nil => intro f _; rfl
  | cons p ps ih =>
    intro f h
    simp only [List.map_cons, List.mem_cons, not_or] at h
    have hp : ¬ p.1 = f := fun e => h.1 e.symm
    simp only [dump]
    split
    · exact ih f h.2
    · simp [lookup, hp, ih f h.2]

theorem lookup_dump (dflt : Nat → Nat) : ∀ (doc : List (Nat × Nat)) (f : Nat), (doc.map (·.1)).Nodup →
    (lookup (dump dflt doc) f).getD (dflt f) = (lookup doc f).getD (dflt f) := by
  intro doc
  induction doc with
  | nil => intro f _; rfl
  | cons p ps ih =>
    intro f hnd
    simp only [List.map_cons, List.nodup_cons] at hnd
    simp only [dump]
    by_cases hv : p.2 = dflt p.1
    · simp only [hv, if_true]
      by_cases hf : p.1 = f
      · -- the omitted field: nobody else carries this name, so the default is restored
        subst hf
        rw [lookup_dump_keys dflt ps p.1 hnd.1]
        simp [lookup, hv]
      · simp only [lookup, hf, if_false]; exact ih f hnd.2
    · simp only [hv, if_false, lookup]
      by_cases hf : p.1 = f
      · simp [hf]
      · simp only [hf, if_false]; exact ih f hnd.2

theorem lookup_map (val : Nat → Nat) : ∀ (fields : List Nat) (f : Nat), f ∈ fields →
    lookup (fields.map (fun g => (g, val g))) f = some (val f) := by
  intro fields
  induction fields with
  | nil => intro f h; simp at h
  | cons a as ih =>
    intro f h
    simp only [List.map_cons, lookup]
    by_cases ha : a = f
    · subst ha; simp
    · simp only [ha, if_false]
      exact ih f (by simpa [ha, eq_comm] using h)

theorem map_fst_map (val : Nat → Nat) : ∀ fields : List Nat, (fields.map (fun f => (f, val f))).map (·.1) = fields := by
  intro fields
  induction fields with
  | nil => rfl
  | cons a as ih => simp only [List.map_cons]; rw [ih]

/-- **Dump without defaults, load with defaults = identity**, for every document over the schema's
fields and every assignment of values (a field is omitted iff it equals its default). -/
theorem C20_defaults_roundtrip (dflt : Nat → Nat) (fields : List Nat) (hnd : fields.Nodup) (val : Nat → Nat) :
    load dflt fields (dump dflt (fields.map (fun f => (f, val f)))) = fields.map (fun f => (f, val f)) := by
  unfold load
  apply List.map_congr_left
  intro f hf
  have hnd' : ((fields.map (fun f => (f, val f))).map (·.1)).Nodup := by rw [map_fst_map val fields]; exact hnd
  rw [lookup_dump dflt _ f hnd', lookup_map val fields f hf]
  rfl

/-- a default-valued field really is omitted from the dump (the property is not vacuous) -/
example : dump (fun _ => 0) [(1, 5), (2, 0), (3, 7)] = [(1, 5), (3, 7)] ∧
    load (fun _ => 0) [1, 2, 3] [(1, 5), (3, 7)] = [(1, 5), (2, 0), (3, 7)] := by decide

end Sedpack.Ver

namespace Sedpack.Path

/-- **Relocation**: under any two roots, a validated relative path denotes the same relative
location (the root followed by the path's own components). -/
theorem C20_relocation_invariant (r1 r2 : P) (s : String) (h : acceptsFileInfo fixed (parse s) = true) :
    (normalize (join r1 (parse s))).drop (normalize r1).length = (parse s).comps ∧
    (normalize (join r2 (parse s))).drop (normalize r2).length = (parse s).comps := by
  rw [(C17_validator_contains r1 s h).1, (C17_validator_contains r2 s h).1]
  simp

end Sedpack.Path
