import SedpackProps.SrcGen
/-!
# C14 — the stage generators never look at the elements they move, in the current source

M-ITER identifies elements by position (`Nat` identifiers) and its monitors never inspect them: the bounds of `C14.lean` are
bounds for streams of *any* values (`None`, falsy values, arrays, …) only if the code is parametric in its elements.  Re-checked
against the source text extracted on this run: the four generators contain no comparison at all, pull exactly one element per
loop iteration, and hand an element on before they overwrite its slot.
-/
namespace Sedpack.Src

/-- no generator compares anything (in particular: no element is compared with `None` or with another element) -/
theorem C14_src_no_comparisons :
    (hasCmp shuffleBuffer || hasCmp shuffleBufferAsync || hasCmp roundRobin || hasCmp roundRobinAsync) = false := by decide +kernel
/-- `shuffle_buffer`: one `next` in the main loop (the fill loop draws through `zip(range(buffer_size), …)`), one `yield` per
iteration, and the slot is overwritten only after its element was yielded -/
theorem C14_src_shuffle_buffer_one_pull_per_yield :
    (occurrences shuffleBuffer "next" == 1 && occurrences shuffleBuffer "yield" == 1
      && allBefore shuffleBuffer "next" "yield" && allBefore shuffleBuffer "yield" "set:buffer"
      && allBefore shuffleBuffer "set:buffer" "yieldfrom") = true := by decide +kernel
/-- the async twin: one `anext` in the fill loop, one in the main loop, yield before the slot is overwritten -/
theorem C14_src_shuffle_buffer_async_one_pull_per_yield :
    (occurrences shuffleBufferAsync "anext" == 2 && noneBefore shuffleBufferAsync "set:buffer" "yield"
      && occurrences shuffleBufferAsync "set:buffer" == 1) = true := by decide +kernel
/-- `round_robin`: an inner iterator is replaced only in the handler of its own `StopIteration`; a new one is drawn from the
outer stream only there (and in the fill loop) -/
theorem C14_src_round_robin_refill_in_handler :
    (occurrences roundRobin "yield" == 1 && occurrences roundRobin "next" == 2 && noneBefore roundRobin "set:buffer" "except"
      && occurrences roundRobinAsync "yield" == 1 && noneBefore roundRobinAsync "set:buffer" "yield") = true := by decide +kernel

end Sedpack.Src
