import SedpackProps.SrcGen
/-!
# C17 — the sub-directory that was checked is the sub-directory that is used, in the current source

M-PATH's containment theorem is about the string the guard accepted.  Re-checked against the source text extracted on this run:
after its two guards `_DatasetFillerContext.__init__` only stores its arguments (no call that could transform the path comes
between the check and the use), and every shard's location goes through the validating `FileInfo` constructor.
-/
namespace Sedpack.Src

/-- both guards (`'..' in parts`, `is_absolute()`) raise before the path is stored -/
theorem C17_src_guards_before_store :
    (occurrences fillerCtxInit "raise" == 2 && allBefore fillerCtxInit "raise" "set:_relative_path_from_split"
      && allBefore fillerCtxInit "cmp:In" "set:_relative_path_from_split" && allBefore fillerCtxInit "is_absolute" "set:_relative_path_from_split") = true := by decide +kernel
/-- everything after the last guard is a plain store: nothing is called between the check and the use -/
theorem C17_src_only_stores_after_guards :
    (match last fillerCtxInit "endif" with
     | some i => (fillerCtxInit.drop (i + 1)).all (fun e => storeEvents.contains e)
     | none => false) = true := by decide +kernel
/-- `_get_new_shard` builds the shard's `FileInfo` with the validating constructor -/
theorem C17_src_new_shard_validated :
    (allBefore getNewShard "FileInfo" "Shard" && !getNewShard.contains "model_construct" && !getNewShard.contains "construct") = true := by decide +kernel

end Sedpack.Src
