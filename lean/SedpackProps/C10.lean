import SedpackProofs.Filler
/-!
# C10 — Shards respect the configured size

Quantifiers: every `examples_per_shard = eps ≥ 1`, every list of writes (splits interleaved in any
way, metadata absent / repeated / alternating, rejected writes anywhere), every split.  Several
sessions: each session appends its own closed shards to the list loaded from disk, so the bound for
a dataset follows session by session (`C10_sessions`).
-/
namespace Sedpack.Fill

def fixed (eps : Nat) : Cfg := { eps := eps, attachFirst := false }

/-- the shards a session lists for split `sp` (after `__exit__`), with the ghost reason of closing -/
def listed (eps : Nat) (ops : List Op) (sp : Nat) : Option (List Closed) :=
  (exitSplit ((run (fixed eps) St.init ops).1 sp)).map (·.closed)

theorem listed_spec (eps : Nat) (heps : 1 ≤ eps) (ops : List Op) (sp : Nat) :
    ∃ cl, listed eps ops sp = some cl ∧ (∀ c ∈ cl, ListedOK eps c) ∧
      cl.flatMap (·.exs) = accepted ops sp ∧ (∀ c ∈ cl.dropLast, c.why ≠ .exit) := by
  have h := (run_inv eps heps ops St.init (fun _ => []) (fun _ => inv_init eps)).1 sp
  obtain ⟨fin, h1, _, h3, h4, h5, _⟩ := exit_inv eps _ _ h
  exact ⟨fin.closed, by simp [listed, fixed, h1], h3, by simpa using h4, h5⟩

/-- A session can always be closed, and every shard it lists holds between 1 and `eps` examples,
its recorded count being the number of examples stored in it. -/
theorem C10_shard_size_bounds (eps : Nat) (heps : 1 ≤ eps) (ops : List Op) (sp : Nat) :
    ∃ cl, listed eps ops sp = some cl ∧
      ∀ c ∈ cl, 1 ≤ c.n ∧ c.n ≤ eps ∧ c.n = c.exs.length := by
  obtain ⟨cl, h1, h2, _, _⟩ := listed_spec eps heps ops sp
  exact ⟨cl, h1, fun c hc => ⟨(h2 c hc).pos, (h2 c hc).le, (h2 c hc).len⟩⟩

/-- No `write_example` of a session ever fails while closing a shard: the outcome of every write
is decided by the writer's validation alone. -/
theorem C10_never_close_fails (eps : Nat) (heps : 1 ≤ eps) (ops : List Op) :
    (run (fixed eps) St.init ops).2 = ops.map outcome :=
  (run_inv eps heps ops St.init (fun _ => []) (fun _ => inv_init eps)).2

/-- Every listed shard except the last one of the session was closed because it was full
(then it holds exactly `eps` examples) or because the metadata changed. -/
theorem C10_nonlast_full_or_mdchange (eps : Nat) (heps : 1 ≤ eps) (ops : List Op) (sp : Nat) :
    ∃ cl, listed eps ops sp = some cl ∧
      ∀ c ∈ cl.dropLast, (c.why = .full ∧ c.n = eps) ∨ c.why = .mdChange := by
  obtain ⟨cl, h1, h2, _, h4⟩ := listed_spec eps heps ops sp
  refine ⟨cl, h1, fun c hc => ?_⟩
  have hne := h4 c hc
  have hok := h2 c (List.dropLast_subset _ hc)
  cases hw : c.why with
  | full => exact Or.inl ⟨rfl, hok.full hw⟩
  | mdChange => exact Or.inr rfl
  | exit => exact absurd hw hne

/-- writes of split `sp` use at most one non-empty metadata value `m` -/
def ConstMd (ops : List Op) (sp m : Nat) : Prop :=
  ∀ op ∈ ops, match op with | .write s md _ _ => s = sp → md = 0 ∨ md = m

/-- auxiliary invariant: under `ConstMd` the open shard's metadata is `0` or `m`, and no shard
was closed because of a metadata change -/
def NoChange (m : Nat) (ss : SplitSt) : Prop :=
  ((ss.prog.getD {}).shard.md = 0 ∨ (ss.prog.getD {}).shard.md = m) ∧ ∀ c ∈ ss.closed, c.why ≠ .mdChange

theorem writeSplit_noChange (eps m : Nat) (ss : SplitSt) (md ex : Nat) (ok : Bool)
    (hmd : md = 0 ∨ md = m) (h : NoChange m ss)
    (hne : Roll eps (ss.prog.getD {}) md → (ss.prog.getD {}).shard.exs ≠ []) :
    NoChange m (writeSplit (fixed eps) ss md ex ok).1 := by
  obtain ⟨h1, h2⟩ := h
  unfold fixed
  by_cases hroll : Roll eps (ss.prog.getD {}) md
  · have hcl : ∀ c ∈ ss.closed ++ [rollClosed eps (ss.prog.getD {})], c.why ≠ .mdChange := by
      intro c hc
      simp only [List.mem_append, List.mem_singleton] at hc
      rcases hc with hc | hc
      · exact h2 c hc
      · subst hc
        simp only [rollClosed]
        unfold Roll at hroll
        split
        · simp
        · omega
    cases ok
    · rw [write_roll_rej eps ss md ex hroll (hne hroll)]
      exact ⟨by simp, hcl⟩
    · rw [write_roll_ok eps ss md ex hroll (hne hroll)]
      exact ⟨by simpa using hmd, hcl⟩
  · cases ok
    · rw [write_stay_rej eps ss md ex hroll]; exact ⟨by simpa using h1, h2⟩
    · rw [write_stay_ok eps ss md ex hroll]
      refine ⟨?_, h2⟩
      simp only [Option.getD_some]
      split
      · exact h1
      · exact hmd

theorem run_noChange (eps : Nat) (heps : 1 ≤ eps) (m sp : Nat) (ops : List Op) :
    ∀ (s : St) (log : Nat → List (Nat × Nat)), (∀ x, Inv eps (s x) (log x)) → ConstMd ops sp m →
      NoChange m (s sp) → NoChange m ((run (fixed eps) s ops).1 sp) := by
  induction ops with
  | nil => intro s log _ _ h; simpa [run] using h
  | cons op ops ih =>
    intro s log hinv hc h
    cases op with
    | write sp0 md ex ok =>
      have hc' : ConstMd ops sp m := fun o ho => hc o (List.mem_cons_of_mem _ ho)
      have hstep := run_inv eps heps [.write sp0 md ex ok] s log hinv
      have hinv1 : ∀ x, Inv eps ((step (fixed eps) s (.write sp0 md ex ok)).1 x)
          (log x ++ accepted [.write sp0 md ex ok] x) := by
        intro x; simpa [run, fixed] using hstep.1 x
      simp only [run]
      apply ih _ _ hinv1 hc'
      by_cases hsp : sp = sp0
      · subst hsp
        have hmd : md = 0 ∨ md = m := by
          have := hc (.write sp md ex ok) (List.mem_cons_self)
          simpa using this
        have : (step (fixed eps) s (.write sp md ex ok)).1 sp = (writeSplit (fixed eps) (s sp) md ex ok).1 := by
          simp [step]
        rw [this]
        exact writeSplit_noChange eps m (s sp) md ex ok hmd h
          (fun hr => roll_nonempty eps heps _ md (hinv sp).prog hr)
      · have : (step (fixed eps) s (.write sp0 md ex ok)).1 sp = s sp := by simp [step, hsp]
        rw [this]; exact h

/-- Within one session and split, as long as the shard-level metadata does not change (all writes
of the split carry no metadata or one and the same value), every listed shard except the last
one is full. -/
theorem C10_full_except_last (eps : Nat) (heps : 1 ≤ eps) (ops : List Op) (sp m : Nat)
    (hconst : ConstMd ops sp m) :
    ∃ cl, listed eps ops sp = some cl ∧ ∀ c ∈ cl.dropLast, c.n = eps := by
  have hinv := (run_inv eps heps ops St.init (fun _ => []) (fun _ => inv_init eps)).1 sp
  have hnc := run_noChange eps heps m sp ops St.init (fun _ => []) (fun _ => inv_init eps) hconst
    (by simp [NoChange, St.init])
  obtain ⟨fin, h1, _, h3, _, h5, h6⟩ := exit_inv eps _ _ hinv
  refine ⟨fin.closed, by simp [listed, fixed, h1], fun c hc => ?_⟩
  have hmem : c ∈ ((run (fixed eps) St.init ops).1 sp).closed := by
    rcases h6 with h6 | ⟨c', h6, _⟩
    · rw [h6] at hc; exact List.dropLast_subset _ hc
    · rw [h6, List.dropLast_concat] at hc; exact hc
  have hne := h5 c hc
  have hok := h3 c (List.dropLast_subset _ hc)
  have hnm := hnc.2 c hmem
  cases hw : c.why with
  | full => exact hok.full hw
  | mdChange => exact absurd hw hnm
  | exit => exact absurd hw hne

/-- Several sessions: if the shards already listed respect the bounds and each session's shards
do, so does the concatenation (a session appends to the list loaded from disk). -/
theorem C10_sessions (eps : Nat) (heps : 1 ≤ eps) (sessions : List (List Op)) (sp : Nat) :
    ∀ c ∈ sessions.flatMap (fun ops => (listed eps ops sp).getD []),
      1 ≤ c.n ∧ c.n ≤ eps ∧ c.n = c.exs.length := by
  intro c hc
  simp only [List.mem_flatMap] at hc
  obtain ⟨ops, _, hc⟩ := hc
  obtain ⟨cl, h1, h2⟩ := C10_shard_size_bounds eps heps ops sp
  rw [h1] at hc
  exact h2 c hc

/-- Non-vacuity / sanity: `eps = 2`, five writes into split 0 interleaved with split 1, one
rejected: shards of 2, 2 and 1 examples. -/
example : (listed 2 [.write 0 0 1 true, .write 1 0 9 true, .write 0 0 2 true, .write 0 0 3 false,
    .write 0 0 4 true, .write 0 0 5 true, .write 0 0 6 true] 0).map (·.map (·.n)) = some [2, 2, 1] := by
  decide

/-- `eps ≥ 1` is needed: with `eps = 0` the very first write tries to close an empty shard. -/
example : (run (fixed 0) St.init [.write 0 0 1 true]).2 = [.closeFailed] := by decide

end Sedpack.Fill
