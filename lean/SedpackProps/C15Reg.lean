import SedpackProofs.Reg
/-!
# C15 / C01 — several Rust-backed iterators alive in one process

"Per-iterator state kept in a keyed static map and removed on exit": as long as every new iterator is registered under a key that
is not in the map at that moment, **every history** of creations, reads and exits of any number of handles, interleaved in any order,
hands each handle a prefix of its own examples, in order — iterators cannot see each other.  The witnesses show what a key that can
coincide with a live one does (the map's size, a wrapping counter: seeds C01_l, C15_j): silent delivery of another iterator's
examples, then a panic.
-/
namespace Sedpack.Reg

/-- **Every history with fresh keys.** -/
theorem C15_fresh_keys_isolate_iterators (ls : List Lbl) (s : St) (hf : Fresh {} ls) (h : run {} ls = some s) :
    (∀ hd, ∃ rest, s.got hd ++ rest = s.items hd) ∧
    (∀ hd k, s.key hd = some k → ∃ rest, s.reg k = some rest ∧ s.got hd ++ rest = s.items hd) := by
  have hi := run_inv ls {} s inv_init hf h
  exact ⟨hi.pref, hi.live⟩

/-- non-vacuity: three handles with staggered life times and distinct keys -/
example : (run {} [.new 0 11 [1, 2, 3], .next 0, .new 1 22 [7, 8], .next 1, .next 0, .next 0, .next 0, .exit 0, .new 2 33 [1, 2, 3], .next 1, .next 2]).map
    (fun s => (s.got 0, s.got 1, s.got 2)) = some ([1, 2, 3], [7, 8], [1]) := by decide

/-- **Witness: the key is the size of the map.**  A (key 0) and B (key 1) are alive, A exits, C is created: the map holds one entry, so
C gets key 1 — B's.  B's next read silently delivers C's first example. -/
theorem C15_key_from_map_size_crosses_streams :
    (run {} [.new 0 0 [1, 2, 3], .next 0, .new 1 1 [7, 8], .next 1, .exit 0, .new 2 1 [1, 2, 3], .next 1]).map (fun s => s.got 1) = some [7, 1] := by decide

/-- … and once C exits, B's key is gone: B's next read panics ("static_index was not found") -/
theorem C15_key_from_map_size_then_panics :
    run {} [.new 0 0 [1, 2, 3], .next 0, .new 1 1 [7, 8], .next 1, .exit 0, .new 2 1 [1, 2, 3], .next 1, .exit 2, .next 1] = none := by decide

end Sedpack.Reg
