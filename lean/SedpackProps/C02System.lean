import SedpackProps.C04
import SedpackProps.C02
import SedpackProps.C03System
import SedpackProps.C15
/-!
# C02, end to end: the multiset of examples a reader gets is the multiset that was written

Abstract specification: a split *is* a multiset of examples; a completed session adds the examples of the shards it closed
for that split.  Concrete system: the shard-list tree of M-TREE after `write_config`, enumerated depth-first.  For every
history of completed sessions — root, sub-directory and nested fillers, multi-writer calls, any interleaving of splits — with
freshly named shard files, the examples enumerated for a split are a permutation of everything the sessions stored for it;
composed with the pipeline theorems of `C02.lean`, that is what every iteration interface delivers in one pass.
-/
namespace Sedpack.Tree

def examplesOf (l : List Shard) : List Nat := l.flatMap (·.exs)

/-- one session -/
theorem C02_session_examples_perm (H : SList → Nat) (B fuel : Nat) (hfuel : B < fuel + 1) (hB : 1 ≤ B) (ds : DS) (se : Session)
    (hse : ∀ w ∈ se, w.1 ≠ [] ∧ w.1.length ≤ B) (hg : Good H B ds) (hl : Linked ds.fs) (hn : NamesOK ds.fs) (hf : FreshSession ds.fs se)
    (s : Nat) :
    (examplesOf (shardsOf fuel (session H fuel ds se).fs [s])).Perm
      (examplesOf (shardsOf fuel ds.fs [s]) ++ examplesOf (newFor se s)) := by
  have h := perm_flatMap (·.exs) (session_perm H B fuel hfuel hB ds se hse hg hl hn hf s)
  simpa [examplesOf, List.flatMap_append] using h

/-- **every history** -/
theorem C02_history_examples_perm (H : SList → Nat) (B fuel : Nat) (hfuel : B < fuel + 1) (hB : 1 ≤ B) (s : Nat) :
    ∀ (hist : List Session) (ds : DS), Good H B ds → Linked ds.fs → NamesOK ds.fs →
      (∀ se ∈ hist, ∀ w ∈ se, w.1 ≠ [] ∧ w.1.length ≤ B) → FreshHistory H fuel ds hist →
      (examplesOf (shardsOf fuel (hist.foldl (session H fuel) ds).fs [s])).Perm
        (examplesOf (shardsOf fuel ds.fs [s]) ++ hist.flatMap (fun se => examplesOf (newFor se s))) := by
  intro hist
  induction hist with
  | nil => intro ds _ _ _ _ _; simp
  | cons se rest ih =>
    intro ds hg hl hn hh hfresh
    simp only [List.foldl_cons, List.flatMap_cons]
    have hse := hh se List.mem_cons_self
    have h1 := C02_session_examples_perm H B fuel hfuel hB ds se hse hg hl hn hfresh.1 s
    have h2 := ih (session H fuel ds se) (session_good H B fuel hfuel hB ds se hse hg).1
      (session_linked H B fuel hfuel hB ds se hse hg hl) (session_namesOK H B fuel hfuel hB ds se hse hg hn hfresh.1)
      (fun se' h' => hh se' (List.mem_cons_of_mem _ h')) hfresh.2
    refine h2.trans ?_
    rw [← List.append_assoc]
    exact List.Perm.append_right _ h1

/-- from the empty dataset: the enumeration holds exactly (as a multiset) what the sessions stored for the split -/
theorem C02_written_is_enumerated (H : SList → Nat) (B fuel : Nat) (hfuel : B < fuel + 1) (hB : 1 ≤ B) (s : Nat) (hist : List Session)
    (hh : ∀ se ∈ hist, ∀ w ∈ se, w.1 ≠ [] ∧ w.1.length ≤ B)
    (hfresh : FreshHistory H fuel { fs := fun _ => none, splits := fun _ => none } hist) :
    (examplesOf (shardsOf fuel (hist.foldl (session H fuel) { fs := fun _ => none, splits := fun _ => none }).fs [s])).Perm
      (hist.flatMap (fun se => examplesOf (newFor se s))) := by
  have h := C02_history_examples_perm H B fuel hfuel hB s hist { fs := fun _ => none, splits := fun _ => none }
    ⟨fun d l h => by simp at h, fun d l h => by simp at h, fun s k h => by simp at h⟩ (fun x hx => by simp at hx)
    C04_empty_namesOK hh hfresh
  have h0 : examplesOf (shardsOf fuel (fun _ => none : FS) [s]) = [] := by
    cases fuel <;> simp [shardsOf, examplesOf]
  simpa [h0] using h

end Sedpack.Tree

namespace Sedpack.Pipe
open Sedpack.Tree

/-- `as_numpy_iterator_rust(repeat=False)`: the (optionally shuffled) shard list is handed to `parallel_map` with `m = min(T, #shards)`
worker threads; a full pass of M-PMAP (any interleaving of the worker threads) returns shard positions, each shard's examples
are served in order, and the examples go through the shuffle buffer when shuffling is on -/
def RustRun (shuffle : Nat) (paths : List Nat) (ex : Nat → List Nat) (out : List Nat) : Prop :=
  ∃ ps, PathsRun shuffle paths ps ∧ ∃ mid,
    ((ps = [] ∧ mid = []) ∨
     ∃ (c : PMap.Cfg) (s : PMap.St), PMap.Good c ∧ PMap.Reach c s ∧ 0 < c.m ∧ s.ended = true ∧ s.dropped = false ∧
       c.nq * c.m + c.nr = ps.length ∧ mid = (s.out.map (PMap.idx c.m)).flatMap (fun k => ex (ps.getD k 0))) ∧
    (if shuffle = 0 then out = mid else SBRun shuffle mid out)

theorem C02_exactly_once_rust (shuffle : Nat) (paths : List Nat) (ex : Nat → List Nat) (out : List Nat)
    (h : RustRun shuffle paths ex out) : out.Perm (paths.flatMap ex) := by
  obtain ⟨ps, hps, mid, hmid, hout⟩ := h
  have hp := (paths_perm shuffle paths ps hps).flatMap_right ex
  have hm : mid = ps.flatMap ex := by
    rcases hmid with ⟨h1, h2⟩ | ⟨c, s, g, hr, hm, he, hd, hlen, hmid⟩
    · rw [h1, h2]; rfl
    · rw [hmid, PMap.C15_full_pass_is_the_input c g s hr hm he hd, hlen]
      exact range_flatMap_getD ps ex
  rw [hm] at hout
  split at hout
  · rw [hout]; exact hp
  · exact (SBRun_perm _ _ _ hout).trans hp

/-- what the reader is given: shard `i` of the enumeration holds `L[i].exs` -/
def exOf (L : List Shard) (i : Nat) : List Nat := (L[i]?.map (·.exs)).getD []

/-- the three pure-Python interfaces and the Rust reader, one full pass each -/
inductive Pass (L : List Shard) (out : List Nat) : Prop
  | sync (shuffle : Nat) : SyncRun shuffle (List.range L.length) (exOf L) id out → Pass L out
  | concurrent (shuffle T : Nat) : 0 < T → ConcurrentRun shuffle T (List.range L.length) (exOf L) id out → Pass L out
  | async (shuffle T : Nat) : AsyncRun shuffle T (List.range L.length) (exOf L) id out → Pass L out
  | rust (shuffle : Nat) : RustRun shuffle (List.range L.length) (exOf L) out → Pass L out

theorem pass_perm (L : List Shard) (out : List Nat) (h : Pass L out) : out.Perm (examplesOf L) := by
  have h2 : (List.range L.length).flatMap (exOf L) = examplesOf L := Sedpack.System.flatMap_shardEx L
  cases h with
  | sync shuffle hrun =>
    have := C02_exactly_once_sync shuffle _ _ id out hrun
    rwa [List.map_id, h2] at this
  | concurrent shuffle T hT hrun =>
    have := C02_exactly_once_concurrent shuffle T hT _ _ id out hrun
    rwa [List.map_id, h2] at this
  | async shuffle T hrun =>
    have := C02_exactly_once_async shuffle T _ _ id out hrun
    rwa [List.map_id, h2] at this
  | rust shuffle hrun =>
    have := C02_exactly_once_rust shuffle _ _ out hrun
    rwa [h2] at this

/-- **Every pure-Python interface, any shuffle size, any read parallelism, any schedule, after any history**: one full pass
over the split delivers a permutation of everything the history stored for it. -/
theorem C02_end_to_end (H : SList → Nat) (B fuel : Nat) (hfuel : B < fuel + 1) (hB : 1 ≤ B) (s : Nat) (hist : List Session)
    (hh : ∀ se ∈ hist, ∀ w ∈ se, w.1 ≠ [] ∧ w.1.length ≤ B)
    (hfresh : FreshHistory H fuel { fs := fun _ => none, splits := fun _ => none } hist) (out : List Nat)
    (hrun : Pass (shardsOf fuel (hist.foldl (session H fuel) { fs := fun _ => none, splits := fun _ => none }).fs [s]) out) :
    out.Perm (hist.flatMap (fun se => examplesOf (newFor se s))) :=
  (pass_perm _ out hrun).trans (C02_written_is_enumerated H B fuel hfuel hB s hist hh hfresh)

end Sedpack.Pipe
