import SedpackProps.SrcGen
/-!
# C05 — the shape of `Dataset.check` in the current source

M-TREE's `checkLists` verifies every list document against the digest recorded by its parent *before* parsing it and
recurses into the children named by the parsed document; `check` then verifies every shard file of every split, after the
optional comparison of the description's own checksums.  Re-checked here against the source text extracted on this run.
-/
namespace Sedpack.Src

/-- `_check_shard_list_info`: the file is hashed, compared (`!=`) and rejected before it is parsed -/
theorem C05_src_verify_before_parse :
    (allBefore checkListInfo "hash_checksums" "cmp:NotEq" && allBefore checkListInfo "cmp:NotEq" "raise" &&
     allBefore checkListInfo "raise" "model_validate_json") = true := by decide +kernel
/-- … and the children named by the parsed document are checked recursively -/
theorem C05_src_recurses_into_children : allBefore checkListInfo "model_validate_json" "_check_shard_list_info" = true := by decide +kernel
/-- `check`: description checksums first, then every list, then every shard file, each mismatch raising -/
theorem C05_src_check_passes :
    (allBefore datasetCheck "current_metadata_checksums" "_check_shard_list_info" &&
     allBefore datasetCheck "_check_shard_list_info" "shard_info_iterator" &&
     allBefore datasetCheck "shard_info_iterator" "hash_checksums") = true := by decide +kernel
/-- both comparisons of `check` are inequalities followed by a `raise` -/
theorem C05_src_mismatch_raises :
    (datasetCheck.filter (· == "cmp:NotEq")).length = 2 ∧ (datasetCheck.filter (· == "raise")).length = 2 ∧
    datasetCheck.getLast? = some "raise" := by decide +kernel

end Sedpack.Src
