import SedpackProofs.Par
/-!
# C18 — the verdict on an example under overlapping writers

`C18_verdict_depends_on_the_example_only` is about one writer.  Here: any number of shard writers (of unrelated datasets, in
different threads) validate an example each at overlapping times; `ShardWriterBase.write` checks the fixed-size attributes one by
one and hands the example to `_write` only if none failed.  With the validation state private to the call, **every interleaving**
gives each example the verdict it gets alone (an instance of the non-interference theorem of M-PAR).  The witness shows what a
process-wide list of mismatches that every call clears on entry does (seed C18_l).
-/
namespace Sedpack.Par

/-- **Every interleaving.**  Whatever the schedule of the writers' validation steps, a writer that has reached its verdict accepted
its example iff every fixed-size attribute of *that* example has the declared shape. -/
theorem C18_overlapping_writers_verdict_is_the_examples (exs : List (List Bool)) (sched : List (Nat × VLbl)) (cs : List Val)
    (h : runPar valComp (exs.map (fun e => ({ todo := e } : Val))) sched = some cs)
    (i : Nat) (c : Val) (hc : cs[i]? = some c) (v : Bool) (hv : c.verdict = some v) :
    ∃ e, exs[i]? = some e ∧ v = e.all id := by
  cases he : exs[i]? with
  | none =>
    -- the schedule never creates components: index i does not exist at the start, hence not at the end
    have hlen : ∀ (sched : List (Nat × VLbl)) (a b : List Val), runPar valComp a sched = some b → b.length = a.length := by
      intro sched
      induction sched with
      | nil => intro a b hab; simp [runPar] at hab; subst hab; rfl
      | cons x xs ih =>
        intro a b hab
        simp only [runPar] at hab
        cases hs : stepPar valComp a x with
        | none => simp [hs] at hab
        | some a1 =>
          simp [hs] at hab
          have := ih a1 b hab
          simp only [stepPar] at hs
          cases hx : a[x.1]? with
          | none => simp [hx] at hs
          | some cx =>
            simp [hx] at hs
            obtain ⟨c2, _, hset⟩ := hs
            subst hset; simpa using this
    have hl := hlen sched _ cs h
    have hi : i < cs.length := (List.getElem?_eq_some_iff.mp hc).1
    have : exs.length ≤ i := by
      have := List.getElem?_eq_none_iff.mp he; exact this
    simp at hl; omega
  | some e =>
    refine ⟨e, rfl, ?_⟩
    have hstart : (exs.map (fun e => ({ todo := e } : Val)))[i]? = some { todo := e } := by simp [List.getElem?_map, he]
    obtain ⟨c', h1, h2⟩ := runPar_proj valComp sched _ cs h i _ hstart
    rw [hc] at h1; injection h1 with h1; subst h1
    have hinv : ({ todo := e } : Val).inv (e.all id) := ⟨by simp, by intro v hv'; simp at hv'⟩
    exact (runSolo_val_inv (e.all id) _ _ _ hinv h2).2 v hv

/-- non-vacuity: two writers interleaved, one example bad in its first attribute -/
example : (runPar valComp [{ todo := [false, true] }, { todo := [true, true] }]
    [(0, .check), (1, .check), (1, .check), (1, .decide), (0, .check), (0, .decide)]).map (fun cs => cs.map (·.verdict)) = some [some false, some true] := by decide

/-- writer 0's example is wrong in its first attribute; writer 1 enters (and clears the list) while writer 0 is between its two
checks: writer 0 accepts the wrong-shaped example -/
theorem C18_shared_mismatch_list_breaks_it :
    (runS { todo := [[false, true], [true]], started := [false, false], verdict := [none, none] }
        [.enter 0, .check 0, .enter 1, .check 0, .decide 0, .check 1, .decide 1]).map (·.verdict) = some [some true, some true] := by decide

end Sedpack.Par
