import SedpackProofs.Pipe
import SedpackProps.C13
/-!
# C14 — Iteration is lazy: read-ahead is bounded by the configured buffers

Every bound below holds in *every reachable state* of the corresponding monitor (i.e. at every
instant of every run, for finite and infinite sources alike) and mentions only the buffer size /
thread count, never the length of the input.  Reading applied: the property bounds source
elements *read/decoded*; the shard-path shuffle buffer of `as_numpy_common` holds `#shards`
strings by construction (its `b` is the number of shards) and opens no file.
-/
namespace Sedpack.Pipe
open Sedpack.Iter

theorem sb_lengths (b : Nat) (s : SB) (h : SBReach b s) :
    s.pulled.length = s.out.length + s.buf.length + (pendL s).length := by
  have hi := (sb_inv_reach b s h).1
  have hp : s.pulled.Perm (s.out ++ s.buf ++ pendL s) := by
    apply List.perm_iff_count.mpr; intro a
    have := hi.cons a; simp only [List.count_append]; omega
  have := hp.length_eq
  simp only [List.length_append] at this; omega

/-- shuffle buffer: at every instant at most `b + 1` elements have been pulled beyond those
yielded, and at most `b` whenever no freshly pulled element is waiting to be stored (in
particular between two `next` calls of the consumer). -/
theorem C14_shuffle_buffer_readahead (b : Nat) (hb : 0 < b) (s : SB) (h : SBReach b s) :
    s.pulled.length ≤ s.out.length + b + 1 ∧ (s.pend = none → s.pulled.length ≤ s.out.length + b) := by
  have hl := sb_lengths b s h
  obtain ⟨hi, hbb⟩ := sb_inv_reach b s h
  have hbuf := hi.bufle (by rw [hbb]; exact hb)
  rw [hbb] at hbuf
  have hpl : (pendL s).length ≤ 1 := by unfold pendL; cases s.pend <;> simp
  refine ⟨by omega, fun hp => ?_⟩
  have : (pendL s).length = 0 := by simp [pendL, hp]
  omega

/-- the prefill pulls exactly `min b len` elements: while filling nothing has been yielded and
fewer than `b` elements are held -/
theorem C14_shuffle_buffer_prefill (b : Nat) (s : SB) (h : SBReach b s) (hf : s.phase = .fill) :
    s.out = [] ∧ s.pulled.length < b := by
  have hl := sb_lengths b s h
  obtain ⟨hi, hbb⟩ := sb_inv_reach b s h
  obtain ⟨hp, hlt, hout⟩ := hi.fill hf
  have : (pendL s).length = 0 := by simp [pendL, hp]
  rw [hbb] at hlt
  exact ⟨hout, by rw [hout] at hl; simp at hl; omega⟩

/-- round robin: at most `b` inner iterators are open at any instant, and at most `b` more have
been taken from the outer stream than have been exhausted. -/
theorem C14_round_robin_readahead (b : Nat) (s : RR) (h : RRReach b s) :
    s.open_.length ≤ b ∧ s.opened ≤ s.closed + b := by
  obtain ⟨hi, hbb⟩ := rr_inv_reach b s h
  have hcap := hi.cap
  have hcnt := hi.cnt
  rw [hbb] at hcap
  constructor
  · split at hcap <;> omega
  · split at hcap <;> omega

/-- lazy pool with the code's prefill `P = 2T + 2`: inputs taken from the source never exceed
results yielded by more than `2T + 2`, in every reachable state of every schedule. -/
theorem C14_pool_inflight (c : Pool.Cfg) (g : Pool.Good c) (hP : c.P = 2 * c.T + 2) (s : Pool.St)
    (h : Pool.Reach c s) (hc : Pool.counting s.ph = true) : s.p ≤ s.out.length + 2 * c.T + 2 := by
  have := Pool.C13_inflight c g s h hc; omega

/-- unshuffled concurrent path: a batch never holds more than `file_parallelism` shards -/
theorem C14_batches_bounded (T : Nat) (ps : List α) :
    ∀ b ∈ batches T (ps.length + 1) ps, 0 < b.length ∧ b.length ≤ T := batches_sizes T _ ps

/-- Productivity (taking finitely many elements from an infinite stream terminates): the shuffle
buffer is never stuck — whatever the source answers it can proceed, and once an element has been
pulled in the main phase the very next step is a yield. -/
theorem C14_shuffle_buffer_productive (b : Nat) (hb : 0 < b) (s : SB) (h : SBReach b s) :
    (s.phase = .fill → ∀ x, (SB.step s (.pull x)).isSome = true) ∧
    (s.phase = .main → s.pend = none → ∀ x, (SB.step s (.pull x)).isSome = true) ∧
    (s.phase = .main → ∀ y, s.pend = some y → ∃ x, (SB.step s (.yield x)).isSome = true) := by
  obtain ⟨hi, hbb⟩ := sb_inv_reach b s h
  have hb' : 0 < s.b := by rw [hbb]; exact hb
  refine ⟨?_, ?_, ?_⟩
  · intro hf x; cases x <;> simp [SB.step, hf]
  · intro hm hp x
    have hfull := hi.mainfull hb' hm
    have hne : s.buf ≠ [] := by intro he; rw [he] at hfull; simp at hfull; omega
    cases x <;> simp [SB.step, hm, hp, hne]
  · intro hm y hp
    have hfull := hi.mainfull hb' hm
    cases hbuf : s.buf with
    | nil => rw [hbuf] at hfull; simp at hfull; omega
    | cons x xs => exact ⟨x, by simp [SB.step, hm, hp, hbuf]⟩

/-- Non-vacuity: a reachable state in which the bound `b + 1` is attained (`b = 1`). -/
example : ∃ s, SB.accepts (SB.init 1) [.pull (some 7), .pull (some 8)] = some s ∧
    s.pulled.length = s.out.length + 1 + 1 := ⟨_, rfl, rfl⟩

end Sedpack.Pipe
