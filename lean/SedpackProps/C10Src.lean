import SedpackProps.SrcGen
/-!
# C10 — the roll-over test of `write_example` in the current source

M-FILL closes the open shard when `written_examples >= examples_per_shard` (or the metadata changed) *before* writing the
next example.  Re-checked against the source text extracted on this run.
-/
namespace Sedpack.Src

/-- the size test is `>=`, evaluated before the roll-over and before the write -/
theorem C10_src_rollover_test :
    (allBefore writeExample "cmp:GtE" "close_shard" && allBefore writeExample "close_shard" "write") = true := by decide +kernel
/-- after a roll-over the progress counter is reset before the write -/
theorem C10_src_counter_reset_before_write : allBefore writeExample "set:written_examples" "write" = true := by decide +kernel
/-- `__exit__` closes what is still open -/
theorem C10_src_exit_closes : (first fillerExit "close_shard").isSome = true := by decide +kernel

/-- … but only shards that hold at least one example (`> 0` is tested before `close_shard`) -/
theorem C10_src_exit_skips_empty : allBefore fillerExit "cmp:Gt" "close_shard" = true := by decide +kernel

end Sedpack.Src
