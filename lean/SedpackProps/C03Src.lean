import SedpackProps.SrcGen
/-!
# C03 — the unshuffled pipelines have the shape M-PIPE gives them, in the current source

`C03_sync/_concurrent/_async_unshuffled_eq` are proved for: path list → (cycle) → per-shard decoding in list order, the concurrent
interface taking *batches* of paths (`islice`), mapping them in order and chaining the results.  Re-checked against the source
text extracted on this run.
-/
namespace Sedpack.Src

/-- the reading side keeps nothing on `self` between passes (shared with C02) -/
theorem C03_src_readers_keep_no_state :
    (hasSelfStore shardPathsDataset || hasSelfStore asNumpyCommon || hasSelfStore asNumpyIterator
      || hasSelfStore asNumpyIteratorConcurrent || hasSelfStore asNumpyIteratorAsync) = false := by decide +kernel
/-- the concurrent interface: the unshuffled branch (after `else`) creates the executor, takes a batch with `islice`, maps it in
order, chains the per-shard lists and takes the next batch; nothing in it compares or filters paths -/
theorem C03_src_concurrent_batches :
    (match last asNumpyIteratorConcurrent "else" with
     | some i =>
        let br := asNumpyIteratorConcurrent.drop (i + 1)
        allBefore br "ThreadPoolExecutor" "islice" && occurrences br "islice" == 2 && occurrences br "map" == 1
          && allBefore br "map" "from_iterable" && allBefore br "from_iterable" "yieldfrom" && !hasCmp br
     | none => false) = true := by decide +kernel
/-- the synchronous interface decodes shard by shard (`map`) and chains (`from_iterable`) before any example-level shuffling -/
theorem C03_src_sync_chain :
    (allBefore asNumpyIterator "as_numpy_common" "map" && noneBefore asNumpyIterator "shuffle_buffer" "from_iterable") = true := by decide +kernel

end Sedpack.Src
