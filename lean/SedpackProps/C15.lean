import SedpackProofs.ParMap
import SedpackProofs.ParMapTerm
import SedpackProofs.ParMapSum
/-!
# C15 — The Rust reader equals the Python reader for every thread count and timing

M-PMAP (`SedpackModel/ParMap.lean`) is the protocol of `parallel_map`: `m = min(threads, #shards)`
workers with private FIFO channels; one label per channel operation, so every relative timing of
the reader threads is a label sequence.  An item is named by its coordinates `(round, slot)` in the
input order (`k ↦ (k / m, k % m)`); `enumTo m q now` is the input order up to `(q, now)`.
Quantifiers: every `m ≥ 1`, every number of items `≥ m` (`nq ≥ 1` full rounds, `nr < m` more),
every interleaving, every drop position.  Correspondence: the order of channel operations recorded under real thread
interleavings by the `SEDPACK_VERIF` hook of `parallel_map.rs` is replayed on the model label by label (`pmaptrace`),
besides the output-level comparison with the cargo harness and with the Python reader.
-/
namespace Sedpack.PMap

structure Good (c : Cfg) : Prop where
  nq : 0 < c.m → 1 ≤ c.nq
  nr : c.nr < c.m ∨ c.m = 0

/-- **Order.** After any interleaving, `next()` has returned exactly the input order so far —
result `k` is item `k`, whatever the order in which the workers finished. -/
theorem C15_output_in_input_order (c : Cfg) (g : Good c) (s : St) (h : Reach c s) : s.out = enumTo c.m s.q s.now :=
  (inv_reach c g.nq g.nr s h).out

/-- every returned item is an item of the input -/
theorem C15_only_items (c : Cfg) (g : Good c) (s : St) (h : Reach c s) (hm : 0 < c.m) (a b : Nat) (hab : (a, b) ∈ s.out) : c.has a b := by
  have hi := inv_reach c g.nq g.nr s h
  rw [hi.out, mem_enumTo] at hab
  have hnow := hi.now hm
  -- worker b has served `posOut b` items, all below its count
  rcases hab with ⟨haq, hbm⟩ | ⟨haq, hbn⟩
  · have hw := hi.w b hbm
    have : s.posOut b ≤ cnt c b := by have := hw.pipe; have := hw.o_w; have := hw.w_i; have := hw.i_p; omega
    have hout := hw.out
    exact (has_iff_lt_cnt c a b hbm).mpr (by split at hout <;> omega)
  · have hbm : b < c.m := by omega
    have hw := hi.w b hbm
    have : s.posOut b ≤ cnt c b := by have := hw.pipe; have := hw.o_w; have := hw.w_i; have := hw.i_p; omega
    have hout := hw.out
    simp only [hbn, if_true] at hout
    exact (has_iff_lt_cnt c a b hbm).mpr (by omega)

/-- **Completeness.** When `next()` returns None (without an early drop) every item of the input
has been returned: nothing is silently left out, for every thread count and timing. -/
theorem C15_complete_at_end (c : Cfg) (g : Good c) (s : St) (h : Reach c s) (hm : 0 < c.m) (he : s.ended = true)
    (hd : s.dropped = false) (a b : Nat) (hab : c.has a b) : (a, b) ∈ s.out := by
  have hi := inv_reach c g.nq g.nr s h
  have hnow := hi.now hm
  have hex : s.exited s.now = true := by
    rcases ended_inv c s h he with h0 | h1
    · omega
    · exact h1
  have hw := hi.w s.now hnow
  have hfin : s.fin s.now = true := by
    rcases hw.ex hex with ⟨hf, _, _⟩ | hdd
    · exact hf
    · rw [hd] at hdd; cases hdd
  have hq : s.posOut s.now = s.q := by have := hw.out; simpa using this
  have hnot : ¬ c.has s.q s.now := by
    rw [has_iff_lt_cnt c s.q s.now hnow]
    have := (hw.fin hd).mp hfin; omega
  rw [hi.out, mem_enumTo]
  obtain ⟨hbm, hex'⟩ := hab
  rcases Nat.lt_trichotomy a s.q with hlt | heq | hgt
  · exact Or.inl ⟨hlt, hbm⟩
  · rcases Nat.lt_or_ge b s.now with hbn | hbn
    · exact Or.inr ⟨heq, hbn⟩
    · exfalso; apply hnot
      refine ⟨hnow, ?_⟩
      subst heq
      rcases hex' with h1 | ⟨h1, h2⟩
      · exact Or.inl h1
      · exact Or.inr ⟨h1, by omega⟩
  · exfalso; apply hnot
    refine ⟨hnow, Or.inl ?_⟩
    rcases hex' with h1 | ⟨h1, _⟩ <;> omega

/-- **One outstanding task per worker** (also C14's bound for the Rust path): a worker has been
handed at most one item beyond those the consumer has already taken from it. -/
theorem C15_one_outstanding (c : Cfg) (g : Good c) (s : St) (h : Reach c s) (w : Nat) (hw : w < c.m) :
    s.pipeLen w ≤ s.posOut w + 1 := by
  have := (inv_reach c g.nq g.nr s h).w w hw; have := this.pipe; omega

/-- **No deadlock**: while the iteration has neither ended nor been dropped, some thread can move. -/
theorem C15_deadlock_free (c : Cfg) (g : Good c) (s : St) (h : Reach c s) (he : s.ended = false) (hd : s.dropped = false) :
    ∃ l, (step c s l).isSome = true := by
  by_cases hm : c.m = 0
  · exact ⟨.cNext, by simp [step, he, hd, hm]⟩
  · have hmp : 0 < c.m := by omega
    have hi := inv_reach c g.nq g.nr s h
    have hnow := hi.now hmp
    have hw := hi.w s.now hnow
    by_cases h1 : s.posOut s.now < s.posW s.now
    · refine ⟨.cNext, ?_⟩
      simp only [step, he, hd, hm, h1]
      simp
    · have heq : s.posOut s.now = s.posW s.now := by have := hw.o_w; omega
      cases hex : s.exited s.now with
      | true => exact ⟨.cNext, by simp [step, he, hd, hm, h1, hex]⟩
      | false =>
        by_cases hb : s.posIn s.now = s.posW s.now + 1
        · exact ⟨.wSend s.now, by simp [step, hnow, hex, hb, hd]⟩
        · have hidle : s.posIn s.now = s.posW s.now := by have := hw.w_i; have := hw.i_w; omega
          by_cases hp : s.posW s.now < s.pipeLen s.now
          · exact ⟨.wRecv s.now, by simp [step, hnow, hex, hidle, hp]⟩
          · have hfin : s.fin s.now = true := by
              apply (hw.fin hd).mpr
              have := hw.pipe; have := hw.i_p; omega
            exact ⟨.wRecv s.now, by simp [step, hnow, hex, hidle, hp, hfin]⟩

/-- **Dropping the iterator stops its threads**: once dropped, every worker thread that has not yet
returned can take a step, and after at most two steps it has returned (an idle worker sees the
stop / disconnection; a busy one fails or finishes its send and then does). -/
theorem C15_drop_lets_workers_exit (c : Cfg) (s : St) (hd : s.dropped = true) (hfin : ∀ w, s.fin w = true) (w : Nat) (hw : w < c.m)
    (hex : s.exited w = false) (hwi : s.posIn w = s.posW w ∨ s.posIn w = s.posW w + 1) :
    (∃ s', step c s (.wSend w) = some s' ∧ s'.exited w = true) ∨
    (∃ s', step c s (.wRecv w) = some s' ∧ (s'.exited w = true ∨ s'.posIn w = s'.posW w + 1)) := by
  rcases hwi with hidle | hbusy
  · right
    by_cases hp : s.posW w < s.pipeLen w
    · exact ⟨{ s with posIn := upd s.posIn w (s.posIn w + 1) }, by simp [step, hw, hex, hidle, hp], Or.inr (by simp [hidle])⟩
    · exact ⟨{ s with exited := upd s.exited w true }, by simp [step, hw, hex, hidle, hp, hfin w], Or.inl (by simp)⟩
  · left
    exact ⟨{ s with exited := upd s.exited w true }, by simp [step, hw, hex, hbusy, hd], by simp⟩

/-- **Every schedule is finite** (also after a drop at any point): from a reachable state, any label list the protocol
accepts has at most `bound c - prog c s` labels, where `bound c = 3·#items + m + 2` (receive, send and take per item, one
exit per worker, the end, the drop) and `prog` counts the operations already done.  Together with
`C15_deadlock_free` and `C15_drop_lets_workers_exit`: the reader neither stalls nor runs for ever. -/
theorem C15_terminates (c : Cfg) (g : Good c) (s s' : St) (h : Reach c s) (tr : List Lbl) (hacc : accepts c s tr = some s') :
    tr.length + prog c s ≤ bound c :=
  accepts_length c g.nr tr s s' (inv_reach c g.nq g.nr s h) hacc

/-- the bound in closed form for `m` workers and `nq` full rounds plus `nr` items -/
example : bound { m := 2, nq := 1, nr := 1 } = 3 * 3 + 2 + 2 := by decide

/-- Non-vacuity: 2 workers, 3 items; the second worker finishes first, the order is unaffected. -/
def c23 : Cfg := { m := 2, nq := 1, nr := 1 }
example : Good c23 := ⟨fun _ => by decide, Or.inl (by decide)⟩
example : (accepts c23 (init c23) [.wRecv 1, .wSend 1, .wRecv 0, .wSend 0, .cNext, .cNext, .wRecv 0, .wSend 0, .wRecv 1, .cNext, .wRecv 0, .cNext]).map
    (fun s => (s.out, s.ended)) = some ([(0, 0), (0, 1), (1, 0)], true) := by decide

/-- at the end of a full pass the consumer stands exactly behind the last item -/
theorem ended_position (c : Cfg) (g : Good c) (s : St) (h : Reach c s) (hm : 0 < c.m) (he : s.ended = true) (hd : s.dropped = false) :
    s.q = c.nq ∧ s.now = c.nr := by
  have hi := inv_reach c g.nq g.nr s h
  have hnow := hi.now hm
  have hex : s.exited s.now = true := by
    rcases ended_inv c s h he with h0 | h1
    · omega
    · exact h1
  have hw := hi.w s.now hnow
  have hfin : s.fin s.now = true := by
    rcases hw.ex hex with ⟨hf, _, _⟩ | hdd
    · exact hf
    · rw [hd] at hdd; cases hdd
  have hq : s.posOut s.now = s.q := by have := hw.out; simpa using this
  have hge : cnt c s.now ≤ s.q := by have := (hw.fin hd).mp hfin; omega
  -- nobody has returned more than it was given
  have hle : ∀ w, w < c.m → s.posOut w ≤ cnt c w := by
    intro w hwm
    have hw' := hi.w w hwm
    have := hw'.pipe; have := hw'.o_w; have := hw'.w_i; have := hw'.i_p; omega
  have hqle := hle s.now hnow
  rw [hq] at hqle
  have hnr : c.nr < c.m := by rcases g.nr with h1 | h1 <;> omega
  -- workers before `now` have returned q+1 items
  have hbefore : ∀ w, w < s.now → w < c.nr := by
    intro w hwn
    have hw' := hi.w w (by omega)
    have h1 := hw'.out
    simp only [hwn, if_true] at h1
    have h2 := hle w (by omega)
    unfold cnt at h2 hge hqle
    split at h2
    · assumption
    · split at hge <;> split at hqle <;> omega
  unfold cnt at hge hqle
  by_cases hlt : s.now < c.nr
  · -- then q = nq + 1 and everybody before … but worker `now` itself would need another round: impossible unless now = nr
    simp only [hlt, if_true] at hge hqle
    -- the worker just after the last partial-round worker: nr - 1 ≥ now, take w = nr - 1 … use worker `now`'s successor bound
    exfalso
    -- worker c.nr - 1 ≥ now has returned q = nq + 1 items only if it is < nr: fine; look at worker c.nr (if < m) or wrap
    by_cases hnm : c.nr < c.m
    · have hw2 := hi.w c.nr hnm
      have h1 := hw2.out
      have h2 := hle c.nr hnm
      unfold cnt at h2
      simp only [Nat.lt_irrefl, if_false] at h2
      have : ¬ c.nr < s.now := by omega
      simp only [this, if_false] at h1
      omega
    · omega
  · simp only [hlt, if_false] at hge hqle
    refine ⟨by omega, ?_⟩
    -- now ≥ nr, and every worker before now is < nr, so now ≤ nr
    rcases Nat.lt_or_ge c.nr s.now with h1 | h1
    · have := hbefore c.nr h1; omega
    · omega

/-- **A full pass of the Rust reader returns the input, in order, nothing else** — for every thread count and every
interleaving of the worker threads. -/
theorem C15_full_pass_is_the_input (c : Cfg) (g : Good c) (s : St) (h : Reach c s) (hm : 0 < c.m) (he : s.ended = true)
    (hd : s.dropped = false) : s.out.map (idx c.m) = List.range (c.nq * c.m + c.nr) := by
  obtain ⟨hq, hn⟩ := ended_position c g s h hm he hd
  have hnr : c.nr ≤ c.m := by rcases g.nr with h1 | h1 <;> omega
  rw [C15_output_in_input_order c g s h, hq, hn, enumTo_idx c.m c.nq c.nr hnr]


end Sedpack.PMap
