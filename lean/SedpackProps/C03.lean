import SedpackProofs.Pipe
import SedpackProps.C11
/-!
# C03 — Unshuffled iteration is deterministic and preserves write order

With `shuffle = 0` every Python interface's output *equals* a function of the on-disk state alone
(`paths` in enumeration order, `ex`), hence is identical across passes, after reopening, and for
every `file_parallelism` and thread timing.  (The Rust reader's order is `PMap_output`, C15.)
The enumeration order itself (own shard files in list order, then children depth-first; children
of one merge in update order) is M-TREE's `C03_*` part in `C04.lean`.
-/
namespace Sedpack.Pipe
open Sedpack.Iter

/-- `as_numpy_iterator(shuffle=0)`: equal to the shards' examples in enumeration order -/
theorem C03_sync_unshuffled_eq (paths : List Nat) (ex : Nat → List Nat) (g : Nat → Nat) (out : List Nat)
    (h : SyncRun 0 paths ex g out) : out = (paths.flatMap ex).map g := by
  obtain ⟨ps, hps, hout⟩ := h
  simp [PathsRun] at hps hout
  rw [hout, hps]

/-- `as_numpy_iterator_concurrent(shuffle=0)`: the same list for **every** `file_parallelism ≥ 1`
(batches of an ordered executor map, chained in order) -/
theorem C03_concurrent_unshuffled_eq (T : Nat) (hT : 0 < T) (paths : List Nat) (ex : Nat → List Nat)
    (g : Nat → Nat) (out : List Nat) (h : ConcurrentRun 0 T paths ex g out) :
    out = (paths.flatMap ex).map g := by
  obtain ⟨ps, hps, hout⟩ := h
  simp [PathsRun] at hps hout
  subst hps
  rw [hout, batches_flatMap_eq T hT, List.map_flatMap]

/-- `as_numpy_iterator_async(shuffle=0)` -/
theorem C03_async_unshuffled_eq (T : Nat) (paths : List Nat) (ex : Nat → List Nat) (g : Nat → Nat)
    (out : List Nat) (h : AsyncRun 0 T paths ex g out) : out = (paths.flatMap ex).map g := by
  obtain ⟨ps, hps, mid, hmid, hout⟩ := h
  simp [PathsRun] at hps hmid
  rw [hout, hmid, hps]

/-- all three agree with each other, for all parallelism settings -/
theorem C03_interfaces_agree (T T' : Nat) (hT : 0 < T) (paths : List Nat) (ex : Nat → List Nat) (g : Nat → Nat)
    (o1 o2 o3 : List Nat) (h1 : SyncRun 0 paths ex g o1) (h2 : ConcurrentRun 0 T paths ex g o2)
    (h3 : AsyncRun 0 T' paths ex g o3) : o1 = o2 ∧ o2 = o3 := by
  rw [C03_sync_unshuffled_eq _ _ _ _ h1, C03_concurrent_unshuffled_eq T hT _ _ _ _ h2,
    C03_async_unshuffled_eq T' _ _ _ _ h3]; exact ⟨rfl, rfl⟩

/-- Write order inside one filler session: the examples of a split appear in its listed shards
(closing order) exactly in the order in which they were written, for every interleaving of splits,
metadata values and rejected writes. -/
theorem C03_session_order (eps : Nat) (heps : 1 ≤ eps) (ops : List Fill.Op) (sp : Nat) :
    ∃ cl, Fill.listed eps ops sp = some cl ∧
      (cl.flatMap (·.exs)).map (·.1) = (Fill.accepted ops sp).map (·.1) := by
  obtain ⟨cl, h1, h2⟩ := Fill.C11_every_write_listed_once eps heps ops sp
  exact ⟨cl, h1, by rw [h2]⟩

end Sedpack.Pipe
