import SedpackProofs.HashConc
/-!
# C16 — digests under overlapping calls

`C16_digest_is_standard` is about one call.  Here: any number of calls in flight at once, under **every** interleaving of their read
and update steps, each feed its own hash object exactly its own file — because buffer and hash state are per call.  The two
witnesses show that either sharing breaks it (what seeds C16_i, C16_k, C16_l and C05_l did); `C16Src.lean` re-checks on every run
that the current source shares neither.
-/
namespace Sedpack.HashConc

/-- **Every interleaving.**  Whatever the schedule of the calls' steps, a call that has finished has fed its hash object exactly the
concatenation of its own file's chunks — the same bytes a one-shot digest sees. -/
theorem C16_overlapping_calls_feed_their_own_file (files : List (List Chunk)) (sched : List Lbl) (cs : List Call)
    (h : runP (start files) sched = some cs) (i : Nat) (c : Call) (hc : cs[i]? = some c) (hfin : c.finished) :
    ∃ f, files[i]? = some f ∧ c.acc = f.flatten := by
  have hmap := runP_content sched (start files) cs h
  have hi : (cs.map Call.content)[i]? = some c.content := by simp [List.getElem?_map, hc]
  rw [hmap] at hi
  simp only [start, List.map_map, List.getElem?_map] at hi
  cases hf : files[i]? with
  | none => simp [hf] at hi
  | some f =>
    refine ⟨f, rfl, ?_⟩
    simp [hf, Call.content, Function.comp] at hi
    obtain ⟨ht, hb⟩ := hfin
    simp [Call.content, ht, hb] at hi
    exact hi.symm

/-- nothing is lost or duplicated on the way either: at every moment fed ++ buffered ++ unread is the file -/
theorem C16_overlapping_calls_invariant (files : List (List Chunk)) (sched : List Lbl) (cs : List Call)
    (h : runP (start files) sched = some cs) : cs.map Call.content = files.map List.flatten := by
  rw [runP_content sched (start files) cs h]
  simp [start, Call.content, Function.comp]

/-- non-vacuity: an interleaved schedule of two calls that completes -/
example : (runP (start [[[1, 2], [3]], [[7], [8, 9]]]) [.read 0, .read 1, .feed 1, .feed 0, .read 1, .read 0, .feed 0, .feed 1]).map
    (fun cs => cs.map (·.acc)) = some [[1, 2, 3], [7, 8, 9]] := by decide

/-- **Witness: one shared read buffer.**  Two calls, the second reads between the first one's read and update: the first call's
hash object is fed the second file's bytes. -/
theorem C16_shared_buffer_breaks_it :
    (runB { calls := start [[[1]], [[2]]] } [.read 0, .read 1, .feed 0, .feed 1]).map (fun s => s.calls.map (·.acc)) = some [[2], [2]] := by decide

/-- **Witness: one shared hash state.**  The state ends up holding both files' bytes interleaved: neither call's digest is the digest
of its file. -/
theorem C16_shared_hash_state_breaks_it :
    (runH { calls := start [[[1], [3]], [[2]]] } [.read 0, .feed 0, .read 1, .feed 1, .read 0, .feed 0]).map (·.state) = some [1, 2, 3] := by decide

end Sedpack.HashConc
