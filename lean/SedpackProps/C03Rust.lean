import SedpackProps.C02System
import SedpackProps.C03
/-!
# C03 / C15 for the Rust reader: unshuffled, it yields exactly what the Python readers yield

`RustRun` (C02System.lean) composes the shard list with a full pass of M-PMAP — any number of worker threads, any interleaving —
and each shard's examples in order.  Unshuffled, its output is the shards' examples in list order: the list the synchronous,
concurrent and asyncio interfaces yield (`C03_interfaces_agree`).
-/
namespace Sedpack.Pipe

/-- `as_numpy_iterator_rust(shuffle=0)`: the shards' examples in list order, for every thread count and timing -/
theorem C03_rust_unshuffled_eq (paths : List Nat) (ex : Nat → List Nat) (out : List Nat) (h : RustRun 0 paths ex out) :
    out = paths.flatMap ex := by
  obtain ⟨ps, hps, mid, hmid, hout⟩ := h
  simp only [PathsRun, if_true] at hps
  simp only [if_true] at hout
  subst hps
  rw [hout]
  rcases hmid with ⟨h1, h2⟩ | ⟨c, s, g, hr, hm, he, hd, hlen, hmid⟩
  · rw [h1, h2]; rfl
  · rw [hmid, PMap.C15_full_pass_is_the_input c g s hr hm he hd, hlen]
    exact range_flatMap_getD ps ex

/-- Non-vacuity: two workers, three one-example shards; one interleaving of the workers. -/
example : RustRun 0 [0, 1, 2] (fun p => [10 * p]) [0, 10, 20] := by
  refine ⟨[0, 1, 2], by simp [PathsRun], [0, 10, 20], Or.inr ⟨{ m := 2, nq := 1, nr := 1 }, ?_⟩, by simp⟩
  let c : PMap.Cfg := { m := 2, nq := 1, nr := 1 }
  have hacc : ∃ s, PMap.accepts c (PMap.init c)
      [.wRecv 1, .wRecv 0, .wSend 0, .cNext, .wSend 1, .cNext, .wRecv 0, .wSend 0, .cNext, .wRecv 1, .wRecv 0, .cNext] = some s ∧
      s.ended = true ∧ s.dropped = false ∧ s.out.map (PMap.idx 2) = [0, 1, 2] := by
    refine ⟨_, rfl, ?_, ?_, ?_⟩ <;> decide
  obtain ⟨s, hs, he, hd, ho⟩ := hacc
  refine ⟨s, ⟨by decide, by decide⟩, PMap.accepts_reach c _ _ _ PMap.Reach.init hs, by decide, he, hd, by decide, ?_⟩
  show [0, 10, 20] = (s.out.map (PMap.idx 2)).flatMap (fun k => [10 * ([0, 1, 2].getD k 0)])
  rw [ho]; decide

end Sedpack.Pipe
