import SedpackProps.SrcGen
/-!
# C04 — every touched split goes through the merge, in the current source

`C04_session_exact` / `C04_history_exact` model `write_config` as: group the updates by split, *merge every group* into the split's
list tree (re-reading the lists on disk), replace the split's entry, then write the description.  Re-checked against the source
text extracted on this run: after the validation of the split names there is no branch in `write_config` — no update bypasses
`merge_shard_infos` — and the description is written last.
-/
namespace Sedpack.Src

/-- the only branch of `write_config` is the refusal of an unknown split name; everything after it is straight-line code per split:
merge, replace the entry; then the description is dumped and published -/
theorem C04_src_every_update_is_merged :
    (occurrences datasetWriteConfig "if" == 1 && allBefore datasetWriteConfig "endif" "merge_shard_infos"
      && occurrences datasetWriteConfig "merge_shard_infos" == 1 && allBefore datasetWriteConfig "merge_shard_infos" "set:splits"
      && allBefore datasetWriteConfig "set:splits" "model_dump_json" && allBefore datasetWriteConfig "model_dump_json" "safe_update_file") = true := by
  decide +kernel
/-- the recursive merge re-reads every list it touches from disk (`load_or_create`) and writes children before it returns the
parent's entry (shared with C06) -/
theorem C04_src_merge_reloads : (first mergeShardInfos "load_or_create").isSome = true := by decide +kernel

end Sedpack.Src
