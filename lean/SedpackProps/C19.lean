import SedpackProofs.Pipe
/-!
# C19 — Repeating iteration cycles through the whole split forever

`repeat=True` feeds `itertools.cycle(shard_paths)` (never exhausted, `#shards ≥ 1` by C12's
non-empty check) into the same machinery.  The theorems: the path stream is periodic; the
unshuffled example stream is the one-pass sequence repeated; no monitor can finish while its
source never ends, it stays productive, and it only ever yields elements it pulled (so only
examples of the selected split).  The Rust interface runs one *finite* native pass per epoch over
a permutation of the shard list, so each epoch is a permutation of the split.
-/
namespace Sedpack.Pipe
open Sedpack.Iter

/-- `itertools.cycle`: element `k` of the repeating shard stream is `paths[k mod n]` -/
theorem C19_cycle_periodic (paths : List Nat) (hn : 0 < paths.length) (k : Nat) :
    cycle paths k = some (paths[k % paths.length]'(Nat.mod_lt _ hn)) ∧
    cycle paths (k + paths.length) = cycle paths k := by
  have hne : paths.length ≠ 0 := by omega
  constructor
  · simp [cycle, hne, List.getElem?_eq_getElem (Nat.mod_lt _ hn)]
  · simp [cycle, hne, Nat.add_mod_right]

theorem range_flatMap_getD2 (ps : List Nat) (f : Nat → List Nat) :
    (List.range ps.length).flatMap (fun i => f (ps.getD i 0)) = ps.flatMap f := by
  have : (List.range ps.length).map (fun i => ps.getD i 0) = ps := by
    apply List.ext_getElem
    · simp
    · intro i h1 h2; simp at h1; simp [List.getD, h1]
  conv => rhs; rw [← this]
  rw [List.flatMap_map]

theorem flatMap_congr_mem {α β} (l : List α) (f g : α → List β) (h : ∀ a ∈ l, f a = g a) : l.flatMap f = l.flatMap g := by
  induction l with
  | nil => rfl
  | cons x xs ih =>
    simp only [List.flatMap_cons]
    rw [h x List.mem_cons_self, ih (fun a ha => h a (List.mem_cons_of_mem _ ha))]

/-- the first `m` epochs of the unshuffled example stream are `m` copies of the one-pass sequence -/
theorem C19_unshuffled_stream (paths : List Nat) (ex : Nat → List Nat) (m : Nat) :
    (List.range (m * paths.length)).flatMap (fun k => ex (paths.getD (k % paths.length) 0))
      = (List.replicate m (paths.flatMap ex)).flatten := by
  induction m with
  | zero => simp
  | succ m ih =>
    have hsplit : List.range ((m + 1) * paths.length)
        = List.range (m * paths.length) ++ (List.range paths.length).map (fun x => m * paths.length + x) := by
      rw [Nat.succ_mul, List.range_add]
    rw [hsplit, List.flatMap_append, ih, List.replicate_succ', List.flatten_append]
    congr 1
    rw [List.flatMap_map]
    simp only [List.flatten_cons, List.flatten_nil, List.append_nil]
    have : ∀ a ∈ List.range paths.length,
        ex (paths.getD ((m * paths.length + a) % paths.length) 0) = ex (paths.getD a 0) := by
      intro a ha
      rw [List.mem_range] at ha
      rw [Nat.mul_add_mod_self_right, Nat.mod_eq_of_lt ha]
    rw [flatMap_congr_mem _ _ _ this]
    exact range_flatMap_getD2 paths ex

theorem sb_step_stays (s s' : SB) (l : SBLbl) (h : s.phase = .fill ∨ s.phase = .main) (hl : l ≠ .pull none)
    (hs : SB.step s l = some s') : s'.phase = .fill ∨ s'.phase = .main ∨ s'.phase = .failed := by
  cases l with
  | pull x =>
    cases x with
    | none => exact absurd rfl hl
    | some x =>
      rcases h with h | h <;> simp only [SB.step, h] at hs
      · simp at hs; subst hs; simp only []; split <;> simp
      · split at hs
        · simp at hs
        · split at hs <;> simp at hs <;> subst hs <;> simp [h]
  | yield x =>
    rcases h with h | h <;> simp only [SB.step, h] at hs
    · simp at hs
    · split at hs
      · split at hs <;> simp at hs; subst hs; simp [h]
      · rename_i hh _; cases hh
      · simp at hs
  | finish =>
    rcases h with h | h <;> simp [SB.step, h] at hs

/-- a shuffle buffer whose source never reports exhaustion never finishes: after any run without
a `pull none` it is still filling or in its main loop (and, by `C14_shuffle_buffer_productive`,
able to go on) -/
theorem C19_shuffle_buffer_never_ends (b : Nat) (hb : 0 < b) (tr : List SBLbl) (s : SB)
    (hno : SBLbl.pull none ∉ tr) (ha : SB.accepts (SB.init b) tr = some s) :
    s.phase = .fill ∨ s.phase = .main := by
  have key : ∀ (tr : List SBLbl) (s0 s1 : SB), SBReach b s0 → (s0.phase = .fill ∨ s0.phase = .main) →
      SBLbl.pull none ∉ tr → SB.accepts s0 tr = some s1 → s1.phase = .fill ∨ s1.phase = .main := by
    intro tr
    induction tr with
    | nil => intro s0 s1 _ h _ ha; simp [SB.accepts] at ha; subst ha; exact h
    | cons l ls ih =>
      intro s0 s1 hr h hno ha
      simp only [SB.accepts] at ha
      cases hs : SB.step s0 l with
      | none => simp [hs] at ha
      | some s2 =>
        simp [hs] at ha
        have hl : l ≠ .pull none := fun h' => hno (by rw [h']; exact List.mem_cons_self)
        have hno' : SBLbl.pull none ∉ ls := fun h' => hno (List.mem_cons_of_mem _ h')
        have hr2 : SBReach b s2 := SBReach.step hr hs
        obtain ⟨hi2, hb2⟩ := sb_inv_reach b s2 hr2
        have hnf := hi2.nofail (by rw [hb2]; exact hb)
        have h2 : s2.phase = .fill ∨ s2.phase = .main := by
          rcases sb_step_stays s0 s2 l h hl hs with h' | h' | h'
          · exact Or.inl h'
          · exact Or.inr h'
          · exact absurd h' hnf
        exact ih s2 s1 hr2 h2 hno' ha
  apply key tr (SB.init b) s SBReach.init _ hno ha
  simp only [SB.init]; split
  · omega
  · exact Or.inl rfl

/-- only elements of the selected split: everything a shuffle buffer / round robin yields was pulled
from its source -/
theorem C19_only_pulled (b : Nat) (s : SB) (h : SBReach b s) (a : Nat) : s.out.count a ≤ s.pulled.count a := by
  have := (sb_inv_reach b s h).1.cons a; omega

theorem C19_only_pulled_rr (b : Nat) (s : RR) (h : RRReach b s) (a : Nat) : s.out.count a ≤ s.pulledAll.count a := by
  have := (rr_inv_reach b s h).1.cons a; omega

/-- Rust interface: each epoch is one finite pass over a permutation of the shard list, hence a
permutation of the split (`PathsRun` with `repeat=False`, then the native reader's ordered output). -/
theorem C19_rust_epoch (shuffle : Nat) (paths ps : List Nat) (ex : Nat → List Nat) (h : PathsRun shuffle paths ps) :
    (ps.flatMap ex).Perm (paths.flatMap ex) := by
  have hp : ps.Perm paths := by
    unfold PathsRun at h
    split at h
    · rw [h]
    · exact SBRun_perm _ _ _ h
  exact hp.flatMap_right ex

end Sedpack.Pipe
