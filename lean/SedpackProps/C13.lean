import SedpackProofs.PoolThm
import SedpackProofs.PoolReuse
/-!
# C13 — The lazy thread pool is correct under every thread interleaving

All statements are about M-POOL (`SedpackModel/Pool.lean`): one label per queue operation, so
"every interleaving of the `T` workers and the consumer" is "every label list the model accepts",
and "every reachable state" is `Reach c s`.  Quantifiers: every thread count `T ≥ 1`, every
prefill count `P ≥ T` (the code uses `2T+2`), every input length (finite `n` or infinite), every
early-exit position (`cAbandon` is enabled whenever the consumer is between two results), every
set of failing inputs.  `forward = true` is the repaired code (a worker forwards the exception of
the mapped function); `C13_original_deadlocks` is the witness for the pinned code.
-/
namespace Sedpack.Pool

structure Good (c : Cfg) : Prop where
  fw : c.forward = true
  T1 : 1 ≤ c.T
  TP : c.T ≤ c.P

theorem Good.P1 {c : Cfg} (g : Good c) : 1 ≤ c.P := Nat.le_trans g.T1 g.TP

/-- The bookkeeping invariant holds in every reachable state. -/
theorem C13_invariant (c : Cfg) (g : Good c) (s : St) (h : Reach c s) : Inv c s :=
  inv_reach c g.fw g.P1 s h

/-- **Exactly once.** Whenever a pass ends normally — under any interleaving — the input was
finite and the yielded indices are a permutation of `0..n-1`: one result per input, none twice. -/
theorem C13_exactly_once (c : Cfg) (g : Good c) (s : St) (h : Reach c s) (hend : normalEnd s) :
    ∃ n, c.n = some n ∧ s.out.Perm (List.range n) :=
  normalEnd_perm c g.fw g.T1 g.TP s h hend

/-- **No silent end on failure.** If the mapped function fails on some input `i < n`, no
interleaving lets the pass end normally: the consumer re-raises (or is still running). -/
theorem C13_fault_no_silent_end (c : Cfg) (g : Good c) (n i : Nat) (hn : c.n = some n) (hi : i < n)
    (hf : c.fails i = true) (s : St) (h : Reach c s) : ¬ normalEnd s := by
  intro hend
  obtain ⟨n', hn', hp⟩ := C13_exactly_once c g s h hend
  rw [hn] at hn'; cases hn'
  have hmem : i ∈ s.out := hp.symm.subset (List.mem_range.mpr hi)
  have := (C13_invariant c g s h).okout i hmem
  rw [hf] at this; cases this

/-- **Deadlock freedom.** In every reachable state some thread can move, unless the pass is over
and every worker thread has returned — also when the mapped function fails. -/
theorem C13_deadlock_free (c : Cfg) (g : Good c) (s : St) (h : Reach c s) (hnt : ¬ terminal s) :
    ∃ l, (step c s l).isSome = true :=
  progress c g.fw g.T1 g.TP s (C13_invariant c g s h) hnt

theorem accepts_bound (c : Cfg) (g : Good c) (n : Nat) (f : St → Prop)
    (hf : ∀ s s' l, f s → Inv c s → step c s l = some s' → mu c n s' < mu c n s ∧ f s') :
    ∀ (tr : List Lbl) (s s' : St), f s → Inv c s → accepts c s tr = some s' → tr.length + mu c n s' ≤ mu c n s := by
  intro tr
  induction tr with
  | nil => intro s s' _ _ h; simp [accepts] at h; subst h; simp
  | cons l ls ih =>
    intro s s' hfs hi h
    simp only [accepts] at h
    cases hs : step c s l with
    | none => simp [hs] at h
    | some s1 =>
      simp [hs] at h
      have h1 := hf s s1 l hfs hi hs
      have h2 := ih s1 s' h1.2 (inv_step c g.fw s s1 l hi hs) h
      simp only [List.length_cons]; omega

/-- **Termination.** For a finite input of length `n`, every schedule is finite: any label list
accepted from a reachable state `s` has at most `mu c n s` labels (a bound that depends only on
`T`, `P`, `n` at the start: `mu c n (init c) = 5 (P + n + T) + 2`). -/
theorem C13_terminates (c : Cfg) (g : Good c) (n : Nat) (hn : c.n = some n) (s s' : St) (h : Reach c s)
    (tr : List Lbl) (hacc : accepts c s tr = some s') : tr.length ≤ mu c n s := by
  have := accepts_bound c g n (fun _ => True)
    (fun s s' l _ hi hs => ⟨mu_decreases c n hn s s' l hi hs, trivial⟩) tr s s' trivial (C13_invariant c g s h) hacc
  omega

/-- **Early exit drains the pool** (finite *and infinite* inputs): once the consumer has left
its loop — normal end, re-raised failure or abandoned iteration followed by `finish_and_reset` —
every continuation is finite, and a state where nothing more can happen has all worker threads
returned. -/
theorem C13_early_exit_drains (c : Cfg) (g : Good c) (s s' : St) (h : Reach c s) (hnc : counting s.ph = false)
    (tr : List Lbl) (hacc : accepts c s tr = some s') :
    tr.length ≤ mu c 0 s ∧ ((∀ l, step c s' l = none) → terminal s') := by
  have hb := accepts_bound c g 0 (fun s => counting s.ph = false)
    (fun s s' l hf hi hs => mu_decreases_after_exit c s s' l hf hi hs) tr s s' hnc (C13_invariant c g s h) hacc
  refine ⟨by omega, fun hstuck => ?_⟩
  have hr' : Reach c s' := by
    clear hb
    induction tr generalizing s with
    | nil => simp [accepts] at hacc; subst hacc; exact h
    | cons l ls ih =>
      simp only [accepts] at hacc
      cases hs : step c s l with
      | none => simp [hs] at hacc
      | some s1 =>
        simp [hs] at hacc
        exact ih s1 (Reach.step h hs) (noncounting_stays c s s1 l hnc hs) hacc
  rcases Classical.em (terminal s') with ht | hnt
  · exact ht
  · obtain ⟨l, hl⟩ := C13_deadlock_free c g s' hr' hnt
    rw [hstuck l] at hl; cases hl

/-- **Bounded read-ahead** (also used by C14): while the consumer is in its loop it has taken at
most `P` more inputs from the source than it has yielded results. -/
theorem C13_inflight (c : Cfg) (g : Good c) (s : St) (h : Reach c s) :
    counting s.ph = true → s.p ≤ s.out.length + c.P :=
  inflight_le c s (C13_invariant c g s h)

/-- The consumer never yields a result of a failing input, and never the same input twice. -/
theorem C13_no_duplicates (c : Cfg) (g : Good c) (s : St) (h : Reach c s) (hc : counting s.ph = true) (i : Nat) :
    s.out.count i ≤ 1 := by
  have hi := C13_invariant c g s h
  have hix := hi.idx hc i
  obtain ⟨htk, _⟩ := taken_counting c s hi hc
  rw [htk, msgIdx_pref] at hix
  split at hix <;> omega

/-! ## Re-use of the pool object

A pool object over its life time (`Multi`): the current pass plus earlier passes whose worker threads
may still be draining their own, forgotten queues.  `newPass` (`imap_unordered` on a pool whose
previous pass has gone through `finish_and_reset`) is enabled exactly then. -/

/-- **The pool can be re-used.** In every reachable state of the pool object — any number of passes,
earlier ones abandoned at any point, with any failing inputs, their workers interleaved arbitrarily
with the current pass — the current pass is a reachable state of a *fresh* single pass, and every
earlier pass is a reachable single-pass state that has been through `finish_and_reset`. -/
theorem C13_reuse_is_fresh_pass (cs : Nat → Cfg) (m : Multi) (h : MReach cs m) :
    Reach (cs m.past.length) m.cur ∧
    ∀ g (hg : g < m.past.length), Reach (cs g) m.past[g] ∧ ∃ why, m.past[g].ph = .fin why :=
  ⟨(minv_reach cs m h).cur, (minv_reach cs m h).past⟩

/-- Hence every pass of a re-used pool is exactly-once, whatever earlier passes left behind. -/
theorem C13_reuse_exactly_once (cs : Nat → Cfg) (hg : ∀ g, Good (cs g)) (m : Multi) (h : MReach cs m)
    (hend : normalEnd m.cur) : ∃ n, (cs m.past.length).n = some n ∧ m.cur.out.Perm (List.range n) :=
  C13_exactly_once _ (hg _) _ (C13_reuse_is_fresh_pass cs m h).1 hend

/-- … and the worker threads of every earlier pass terminate: their remaining schedule is finite and
ends with all of them returned (also for an infinite input abandoned half-way). -/
theorem C13_reuse_old_workers_drain (cs : Nat → Cfg) (hg : ∀ g, Good (cs g)) (m : Multi) (h : MReach cs m)
    (g : Nat) (hlt : g < m.past.length) (tr : List Lbl) (s' : St) (hacc : accepts (cs g) m.past[g] tr = some s') :
    tr.length ≤ mu (cs g) 0 m.past[g] ∧ ((∀ l, step (cs g) s' l = none) → terminal s') := by
  obtain ⟨hr, why, hph⟩ := (C13_reuse_is_fresh_pass cs m h).2 g hlt
  exact C13_early_exit_drains (cs g) (hg g) _ s' hr (by rw [hph]; rfl) tr hacc

/-- a new pass cannot start while the previous one has not been reset (the code's `assert`s) -/
theorem C13_newPass_needs_reset (cs : Nat → Cfg) (m m' : Multi) (h : mstep cs m .newPass = some m') :
    ∃ why, m.cur.ph = .fin why := by
  simp only [mstep] at h
  split at h
  · rename_i why hph; exact ⟨why, hph⟩
  · cases h

/-! ## The pinned code (a worker dies with the exception): a kernel-checked stuck state (D2) -/

def stuckCfg : Cfg := { T := 1, P := 4, n := some 1, fails := fun _ => true, forward := false }
def stuckTrace : List Lbl := [.cPut, .cPut, .cPut, .cPut, .wGet 0, .wPut 0]

/-- `LazyPool(1)`, one input on which the function raises: after six queue operations the only
worker is dead, the consumer waits for a result with one "active" thread, and nothing but giving
up is possible. -/
theorem C13_original_deadlocks : ∃ s, accepts stuckCfg (init stuckCfg) stuckTrace = some s ∧
    s.ph = .waiting ∧ s.active = 1 ∧ s.results = [] ∧ s.ws = [.dead] ∧
    ∀ l, step stuckCfg s l = none ∨ l = .cAbandon := by
  refine ⟨_, rfl, rfl, rfl, rfl, rfl, ?_⟩
  intro l
  cases l <;> simp [step, stuckCfg, init, chain]
  all_goals (rename_i w; rcases w with _ | w <;> simp)

/-- Non-vacuity: the code's configuration `T = 2, P = 2T+2 = 6` is `Good`, and a complete run over
3 inputs (one interleaving) ends normally with all inputs yielded. -/
def demoCfg : Cfg := { T := 2, P := 6, n := some 3, fails := fun _ => false, forward := true }
example : Good demoCfg := ⟨rfl, by decide, by decide⟩
example : (accepts demoCfg (init demoCfg)
    [.cPut, .cPut, .cPut, .cPut, .cPut, .cPut, .wGet 0, .wGet 1, .wPut 1, .wPut 0, .cGet, .cPutNext, .wGet 0, .wPut 0,
     .cGet, .cPutNext, .cGet, .cPutNext, .wGet 1, .wPut 1, .wGet 0, .wPut 0, .cGet, .cGet, .cFinish]).map
      (fun s => (s.out, s.ph)) = some ([1, 0, 2], .resetting 0 0) := by decide

/-- Non-vacuity of the re-use theorems: pass 0 (infinite input) is abandoned after one result, pass 1
starts while worker 1 of pass 0 has not yet seen its sentinel, and both make progress interleaved. -/
def reuseCfgs : Nat → Cfg
  | 0 => { T := 2, P := 6, n := none, fails := fun _ => false, forward := true }
  | _ => { T := 2, P := 6, n := some 1, fails := fun _ => false, forward := true }
example : ((maccepts reuseCfgs (minit reuseCfgs)
    [.cur .cPut, .cur .cPut, .cur .cPut, .cur .cPut, .cur .cPut, .cur .cPut, .cur (.wGet 0), .cur (.wPut 0), .cur .cGet, .cur .cPutNext,
     .cur .cAbandon, .cur .cReset, .cur .cReset, .cur .cReset, .newPass,
     .cur .cPut, .old 0 (.wGet 1), .cur .cPut, .old 0 (.wPut 1), .cur (.wGet 0), .old 0 (.wGet 0)]).map
      (fun m => (m.past.length, m.cur.p, (m.past.map (·.q))))) = some (1, 2, [3]) := by decide

end Sedpack.Pool
