import SedpackProps.C18
/-!
# C10 — the number of shards of a split is the ceiling

Consequence of `C10_shard_size_bounds` and `C10_full_except_last`: within one writing session and split, as long as
the shard-level metadata does not change, `N` accepted examples are stored in exactly `⌈N / examples_per_shard⌉` shards
— for every `examples_per_shard ≥ 1`, every `N` (0, 1, multiples of the size and ±1 included), every interleaving with
other splits and every number of rejected writes in between.
-/
namespace Sedpack.Fill

/-- sizes that are all `eps` except a last one in `1..eps`: the total determines how many there are -/
theorem sum_bounds_of_full_except_last (eps : Nat) (heps : 1 ≤ eps) : ∀ ns : List Nat, (∀ n ∈ ns.dropLast, n = eps) →
    (∀ n ∈ ns, 1 ≤ n ∧ n ≤ eps) → ns.sum ≤ ns.length * eps ∧ ns.length * eps < ns.sum + eps
  | [], _, _ => by simp; omega
  | [a], _, h => by
    have := h a (by simp)
    simp only [List.sum_cons, List.sum_nil, List.length_cons, List.length_nil, Nat.zero_add, Nat.one_mul, Nat.add_zero]
    omega
  | a :: b :: r, hd, h => by
    rw [List.dropLast_cons_cons] at hd
    have ha : a = eps := hd a (by simp)
    have ih := sum_bounds_of_full_except_last eps heps (b :: r) (fun n hn => hd n (List.mem_cons_of_mem _ hn))
      (fun n hn => h n (List.mem_cons_of_mem _ hn))
    rw [List.sum_cons, List.length_cons, Nat.succ_mul]
    omega

/-- **Shard count.** With constant shard metadata a session stores the `N` accepted examples of a split in exactly
`⌈N / eps⌉ = (N + eps - 1) / eps` shards. -/
theorem C10_shard_count_is_ceiling (eps : Nat) (heps : 1 ≤ eps) (ops : List Op) (sp m : Nat) (hconst : ConstMd ops sp m) :
    ∃ cl, listed eps ops sp = some cl ∧ cl.length = ((accepted ops sp).length + eps - 1) / eps := by
  obtain ⟨cl, h1, hfull⟩ := C10_full_except_last eps heps ops sp m hconst
  obtain ⟨cl', h1', hok, hacc, _⟩ := listed_spec eps heps ops sp
  have hcl : cl' = cl := by rw [h1] at h1'; exact (Option.some.inj h1').symm
  subst hcl
  refine ⟨cl', h1, ?_⟩
  have hsum := sum_n_eq_length eps cl' hok
  rw [hacc] at hsum
  have hb := sum_bounds_of_full_except_last eps heps (cl'.map (·.n))
    (by
      intro n hn
      rw [← List.map_dropLast, List.mem_map] at hn
      obtain ⟨c, hc, rfl⟩ := hn
      exact hfull c hc)
    (by
      intro n hn
      rw [List.mem_map] at hn
      obtain ⟨c, hc, rfl⟩ := hn
      exact ⟨(hok c hc).pos, (hok c hc).le⟩)
  rw [List.length_map, hsum] at hb
  symm
  apply Nat.div_eq_of_lt_le
  · omega
  · rw [Nat.succ_mul]; omega

/-- non-vacuity: 5 accepted writes (and one rejected) with 2 per shard give 3 shards -/
example : ((listed 2 [.write 0 0 1 true, .write 0 0 2 true, .write 0 0 3 false, .write 0 0 4 true, .write 0 0 5 true,
    .write 0 0 6 true] 0).map (·.length)) = some 3 := by decide

end Sedpack.Fill
