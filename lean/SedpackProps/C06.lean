import SedpackProofs.Crash
/-!
# C06 — A writer crash never corrupts or loses committed data

M-CRASH (`SedpackModel/Crash.lean`): one label per file-system effect of a writing session; a crash
state is the state after any prefix of an accepted effect sequence (`C06_every_prefix_is_a_state`),
which is also what a concurrent reader sees at that instant.  The theorems hold in **every**
reachable state, for every history, every session and every crash point.  Assumptions: `rename`
is atomic, a process crash loses no completed write (the OS stays up), shard file names are fresh.
That the real code's effect order satisfies the guards of `install` / `installInfo` is checked on
every run by replaying the observed effect trace through `accepts`.
-/
namespace Sedpack.Crash

/-- the discipline invariant holds at every crash point -/
theorem C06_invariant (s0 s : St) (h0 : Inv s0) (h : Reach s0 s) : Inv s := inv_reach s0 s h0 h

/-- **Every shard reachable from the description is a completely written, hashed file that nobody
is writing to** — at every crash point. -/
theorem C06_reachable_complete (s0 s : St) (h0 : Inv s0) (h : Reach s0 s) (f : Nat) (hf : Reachable s f) :
    f ∈ s.closed ∧ f ∉ s.opened := by
  have hi := inv_reach s0 s h0 h
  obtain ⟨r, _, hr⟩ := hf
  have hc := reachFrom_closed s hi hr
  exact ⟨hc, hi.closedNotOpen f hc⟩

/-- **Committed data is kept**: whatever was reachable before the session (or at any earlier
instant) is still reachable at every later crash point. -/
theorem C06_committed_kept (s0 s : St) (h : Reach s0 s) (f : Nat) (hf : Reachable s0 f) : Reachable s f := by
  induction h with
  | init => exact hf
  | step _ hs ih => exact reachable_mono _ _ _ hs ih

/-- **Children before parents, lists before the description**: every list document named by an
installed document or by the description is itself installed, at every crash point
(so every metadata file a reader can reach exists as a complete document). -/
theorem C06_children_first (s0 s : St) (h0 : Inv s0) (h : Reach s0 s) :
    (∀ d doc, s.docs d = some doc → ∀ c ∈ doc.kids, (s.docs c).isSome = true) ∧
    (∀ r ∈ s.roots, (s.docs r).isSome = true) :=
  ⟨(inv_reach s0 s h0 h).kidsInstalled, (inv_reach s0 s h0 h).rootsInstalled⟩

/-- a closed shard file stays closed and is never opened for writing again -/
theorem C06_closed_stays (s0 s : St) (h : Reach s0 s) (f : Nat) (hf : f ∈ s0.closed) : f ∈ s.closed := by
  induction h with
  | init => exact hf
  | step _ hs ih => exact closed_mono _ _ _ hs ih

/-- every crash point of an accepted session is a reachable state -/
theorem C06_every_prefix_is_a_state (s0 s' : St) (tr pre : List Lbl) (hp : pre <+: tr) (ha : accepts s0 tr = some s') :
    ∃ sp, accepts s0 pre = some sp ∧ Reach s0 sp := by
  obtain ⟨sp, hsp⟩ := accepts_prefix tr pre s0 s' hp ha
  exact ⟨sp, hsp, accepts_reach s0 pre s0 sp Reach.init hsp⟩

/-- only the atomic `install` / `installInfo` effects change what metadata a reader can see:
partial writes go to temp files and to shard files no document names -/
theorem C06_partial_writes_invisible (s s' : St) (l : Lbl) (hs : step s l = some s')
    (hl : (∃ f, l = .shardBegin f ∨ l = .shardAppend f ∨ l = .shardClose f) ∨ ∃ d, l = .tmpWrite d) :
    s'.docs = s.docs ∧ s'.roots = s.roots := by
  rcases hl with ⟨f, rfl | rfl | rfl⟩ | ⟨d, rfl⟩ <;>
    (simp only [step] at hs; (try split at hs) <;> simp at hs <;> subst hs <;> exact ⟨rfl, rfl⟩)

/-- Non-vacuity: a first session of one shard in `train`, crash points included. -/
def empty : St := { closed := [], opened := [], docs := fun _ => none, roots := [], tmps := 0 }
example : Inv empty := ⟨by simp [empty], by simp [empty], by simp [empty], by simp [empty], by simp [empty]⟩
example : (accepts empty [.shardBegin 1, .shardAppend 1, .shardClose 1, .tmpWrite [0], .install [0] ⟨[1], []⟩,
    .tmpWrite [], .installInfo [[0]]]).map (fun s => (s.closed, s.roots)) = some ([1], [[0]]) := by decide
/-- listing a shard before it is closed is refused by the model -/
example : accepts empty [.shardBegin 1, .install [0] ⟨[1], []⟩] = none := by decide

end Sedpack.Crash
