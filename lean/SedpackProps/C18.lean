import SedpackProps.C10
/-!
# C18 — Write-time validation is all-or-nothing and never poisons a shard (filler level)

`ok = false` marks a write the shard writer's validation rejects (M-CODEC decides which values
those are, per format).  The theorems below say that such a write leaves no observable trace in
the session: the outcome of every other write, the sequence of examples stored per split and all
counts are what they would have been without it.
-/
namespace Sedpack.Fill

theorem sum_n_eq_length (eps : Nat) (cl : List Closed) (h : ∀ c ∈ cl, ListedOK eps c) :
    (cl.map (·.n)).sum = (cl.flatMap (·.exs)).length := by
  induction cl with
  | nil => simp
  | cons c cs ih =>
    have hc := (h c (List.mem_cons_self)).len
    have := ih (fun x hx => h x (List.mem_cons_of_mem _ hx))
    simp [List.flatMap_cons, this, hc]

/-- what a reader can observe of a split after the session: examples in order and the total count -/
def observe (cl : List Closed) : List Nat × Nat := ((cl.flatMap (·.exs)).map (·.1), (cl.map (·.n)).sum)

/-- A rejected write leaves no trace: for every prefix and suffix of operations, every split has
the same stored example sequence and the same recorded total with or without it, every listed
shard is still within bounds and correctly labelled (C10/C11 apply to both runs), and the outcomes
of all other writes are unchanged. -/
theorem C18_reject_no_trace (eps : Nat) (heps : 1 ≤ eps) (ops₁ ops₂ : List Op) (s md ex sp : Nat) :
    ∃ cl cl', listed eps (ops₁ ++ .write s md ex false :: ops₂) sp = some cl ∧
      listed eps (ops₁ ++ ops₂) sp = some cl' ∧ observe cl = observe cl' ∧
      (run (fixed eps) St.init (ops₁ ++ .write s md ex false :: ops₂)).2
        = ops₁.map outcome ++ .rejected :: ops₂.map outcome ∧
      (run (fixed eps) St.init (ops₁ ++ ops₂)).2 = ops₁.map outcome ++ ops₂.map outcome := by
  obtain ⟨cl, h1, h2, h3, _⟩ := listed_spec eps heps (ops₁ ++ .write s md ex false :: ops₂) sp
  obtain ⟨cl', h1', h2', h3', _⟩ := listed_spec eps heps (ops₁ ++ ops₂) sp
  refine ⟨cl, cl', h1, h1', ?_, ?_, ?_⟩
  · have hacc : accepted (ops₁ ++ .write s md ex false :: ops₂) sp = accepted (ops₁ ++ ops₂) sp := by
      rw [accepted_append, accepted_cons, accepted_append]
      simp [accepted]
    unfold observe
    rw [sum_n_eq_length eps cl h2, sum_n_eq_length eps cl' h2', h3, h3', hacc]
  · rw [C10_never_close_fails eps heps]; simp [outcome]
  · rw [C10_never_close_fails eps heps]; simp

/-- The recorded total of a split is the number of accepted writes: rejected ones are not counted. -/
theorem C18_counts_exclude_rejected (eps : Nat) (heps : 1 ≤ eps) (ops : List Op) (sp : Nat) :
    ∃ cl, listed eps ops sp = some cl ∧ (cl.map (·.n)).sum = (accepted ops sp).length := by
  obtain ⟨cl, h1, h2, h3, _⟩ := listed_spec eps heps ops sp
  exact ⟨cl, h1, by rw [sum_n_eq_length eps cl h2, h3]⟩

/-! ## Witnesses for the pinned statement order (defect D4): metadata attached before the write -/

def pinned (eps : Nat) : Cfg := { eps := eps, attachFirst := true }

/-- D4: a rejected *first* write of a shard with metadata 1, then a write with metadata 2: the
filler tries to close a shard that holds nothing and the second (valid) write fails — and so does
every retry. -/
theorem C18_first_write_poison_pinned :
    (run (pinned 3) St.init [.write 0 1 10 false, .write 0 2 11 true, .write 0 2 11 true]).2
      = [.rejected, .closeFailed, .closeFailed] := by decide

/-- D4': with the pinned order a rejected write relabels the open shard (a visible trace). -/
theorem C18_reject_leaves_label_pinned :
    (view ((run (pinned 3) St.init [.write 0 0 10 true, .write 0 5 11 false]).1 0)) = some [(5, 1, [10])] ∧
    (view ((run (fixed 3) St.init [.write 0 0 10 true, .write 0 5 11 false]).1 0)) = some [(0, 1, [10])] := by
  decide

/-- Non-vacuity: a rejected write in the middle of a shard and one that follows a roll-over. -/
example : (listed 2 [.write 0 0 1 true, .write 0 0 2 false, .write 0 0 3 true, .write 0 0 4 false,
    .write 0 0 5 true] 0).map observe = some ([1, 3, 5], 3) := by decide

end Sedpack.Fill
