import SedpackProofs.TreeEnum
import SedpackProofs.Crash
import SedpackProofs.TreeCrash
import SedpackProps.C08
/-!
# C06 ↔ M-TREE: the merge of the code-shaped model obeys M-CRASH's install discipline

M-CRASH accepts an `install d doc` only if `doc` extends the document it replaces (same shard entries or more, no child
dropped), names only children whose own documents are already installed, and those lie exactly one level deeper.  The
harness checks that the *observed* effect order of the real code satisfies these guards; here the same facts are derived,
for every store, every depth and every set of updates, from the code-shaped model of `merge_shard_infos`: the document it
writes at a directory is computed from the infos *returned by* the merges of its children, so those were written before.
-/
namespace Sedpack.Tree

/-- **Children first, documents only grow** — at every level of the recursion. -/
theorem C06_merge_respects_install_discipline (H : SList → Nat) (B fuel : Nat) (fs : FS) (d : Dir) (us : List Kid)
    (hfuel : B < fuel + d.length) (hpre : Pre B fs d us) : InstallOK fs (merge H fuel fs d us).1 d :=
  merge_installOK H B fuel fs d us hfuel hpre

/-- the same for every split of a whole `write_config`: after a completed session each split root document exists and
every child record anywhere in the tree points to an existing document (nothing dangling is ever reachable) -/
theorem C06_session_no_dangling_child (H : SList → Nat) (B fuel : Nat) (hfuel : B < fuel + 1) (hB : 1 ≤ B) (ds : DS) (se : Session)
    (hse : ∀ w ∈ se, w.1 ≠ [] ∧ w.1.length ≤ B) (hg : Good H B ds) (s : Nat) (k : Kid)
    (hk : (session H fuel ds se).splits s = some k) (x : Dir) (hx : Reaches (session H fuel ds se).fs [s] x) :
    (session H fuel ds se).fs x ≠ none := by
  obtain ⟨hgood, _⟩ := session_good H B fuel hfuel hB ds se hse hg
  obtain ⟨hkd, hex⟩ := hgood.exact s k hk
  -- exactness is hereditary along reachability
  have key : ∀ (k : Kid), Exact H (session H fuel ds se).fs k → ∀ x, Reaches (session H fuel ds se).fs k.dir x →
      (session H fuel ds se).fs x ≠ none := by
    intro k hexk
    induction hexk with
    | @mk k l hget _ _ _ _ hkids ih =>
      intro x hx
      cases hx with
      | refl => rw [hget]; simp
      | @step _ _ c l2 hget2 hc hcx =>
        rw [hget] at hget2; cases hget2
        exact ih c hc x hcx
  rw [← hkd] at hx
  exact key k hex x hx

/-! ## Crash points of the code-shaped model

`sessionE` (SedpackModel/TreeCrash.lean) is `session` emitting every list document it installs, in program order.  A crash
state of the metadata is the store after a prefix of that sequence; the description still names the old split table (or the
new one, after the last install).  The theorems quantify over every dataset, every session shape, every depth and every
prefix length. -/

/-- the effect-emitting session computes the same dataset as `session`, and its installs reproduce its store -/
theorem C06_effects_refine_session (H : SList → Nat) (B fuel : Nat) (hfuel : B < fuel + 1) (hB : 1 ≤ B) (ds : DS) (se : Session)
    (hse : ∀ w ∈ se, w.1 ≠ [] ∧ w.1.length ≤ B) (hi : SInv B ds.fs) :
    (sessionE H fuel ds se).1 = session H fuel ds se ∧
    (session H fuel ds se).fs = applyInstalls ds.fs (sessionE H fuel ds se).2 :=
  ⟨(sessionE_spec H B fuel hfuel hB ds se hse hi).1, (sessionE_spec H B fuel hfuel hB ds se hse hi).2.1⟩

/-- **children first, documents only grow**: the emitted sequence satisfies M-CRASH's install discipline at every step -/
theorem C06_session_installs_valid (H : SList → Nat) (B fuel : Nat) (hfuel : B < fuel + 1) (hB : 1 ≤ B) (ds : DS) (se : Session)
    (hse : ∀ w ∈ se, w.1 ≠ [] ∧ w.1.length ≤ B) (hi : SInv B ds.fs) : Valid B ds.fs (sessionE H fuel ds se).2 :=
  (sessionE_spec H B fuel hfuel hB ds se hse hi).2.2

/-- **Every crash point of a session.**  After any number `k` of the session's installs: every list document is well formed
and names only documents that exist (`SInv`); every shard enumerated before the session is still enumerated; and every
enumerated shard was either committed before or is a shard the session closed — never anything else. -/
theorem C06_session_crash_points (H : SList → Nat) (B fuel : Nat) (hfuel : B < fuel + 1) (hB : 1 ≤ B) (ds : DS) (se : Session)
    (hse : ∀ w ∈ se, w.1 ≠ [] ∧ w.1.length ≤ B) (hg : Good H B ds) (hi : SInv B ds.fs) (hl : Linked ds.fs) (k s : Nat) :
    SInv B (applyInstalls ds.fs ((sessionE H fuel ds se).2.take k)) ∧
    (∀ sh, sh ∈ shardsOf fuel ds.fs [s] → sh ∈ shardsOf fuel (applyInstalls ds.fs ((sessionE H fuel ds se).2.take k)) [s]) ∧
    (∀ sh, sh ∈ shardsOf fuel (applyInstalls ds.fs ((sessionE H fuel ds se).2.take k)) [s] →
      sh ∈ shardsOf fuel ds.fs [s] ∨ ∃ w ∈ se, w.1.headD 0 = s ∧ sh ∈ w.2) := by
  obtain ⟨_, hst, hv⟩ := sessionE_spec H B fuel hfuel hB ds se hse hi
  obtain ⟨h1, h2, h3⟩ := valid_crash_point B fuel ds.fs _ hv hi k [s] (by simpa using hB) (by simp; omega)
  refine ⟨h1, h2, fun sh h => ?_⟩
  have := h3 sh h
  rw [← hst] at this
  exact (session_adds_exactly H B fuel hfuel hB ds se hse hg hl s sh).mp this

/-- **Every crash point of a multi-writer call** (`write_multiprocessing`: the fillers `fl` one after the other, each rewriting
its own lists, then the merges in the parent): the same three facts, for every number of fillers and every prefix. -/
theorem C06_multiwriter_crash_points (H : SList → Nat) (B fuel : Nat) (hfuel : B < fuel + 1) (hB : 1 ≤ B) (ds : DS) (fl : List Session)
    (hse : ∀ w ∈ fl.flatten, w.1 ≠ [] ∧ w.1.length ≤ B) (hg : Good H B ds) (hi : SInv B ds.fs) (hl : Linked ds.fs) (k s : Nat) :
    SInv B (applyInstalls ds.fs ((multiSessionE H fuel ds fl).2.take k)) ∧
    (∀ sh, sh ∈ shardsOf fuel ds.fs [s] → sh ∈ shardsOf fuel (applyInstalls ds.fs ((multiSessionE H fuel ds fl).2.take k)) [s]) ∧
    (∀ sh, sh ∈ shardsOf fuel (applyInstalls ds.fs ((multiSessionE H fuel ds fl).2.take k)) [s] →
      sh ∈ shardsOf fuel ds.fs [s] ∨ ∃ f ∈ fl, ∃ w ∈ f, w.1.headD 0 = s ∧ sh ∈ w.2) := by
  obtain ⟨_, hst, hv⟩ := multiSessionE_spec H B fuel hfuel hB ds fl hse hi
  obtain ⟨h1, h2, h3⟩ := valid_crash_point B fuel ds.fs _ hv hi k [s] (by simpa using hB) (by simp; omega)
  refine ⟨h1, h2, fun sh h => ?_⟩
  have := h3 sh h
  rw [← hst] at this
  rcases (session_adds_exactly H B fuel hfuel hB ds fl.flatten hse hg hl s sh).mp this with h | ⟨w, hw, h5, h6⟩
  · exact Or.inl h
  · obtain ⟨f, hf, hwf⟩ := List.mem_flatten.mp hw
    exact Or.inr ⟨f, hf, w, hwf, h5, h6⟩

/-- the order of the committed shards of every list is kept at every crash point -/
theorem C06_crash_point_keeps_list_order (H : SList → Nat) (B fuel : Nat) (hfuel : B < fuel + 1) (hB : 1 ≤ B) (ds : DS) (se : Session)
    (hse : ∀ w ∈ se, w.1 ≠ [] ∧ w.1.length ≤ B) (hi : SInv B ds.fs) (k : Nat) (x : Dir) :
    filesAt ds.fs x <+: filesAt (applyInstalls ds.fs ((sessionE H fuel ds se).2.take k)) x := by
  obtain ⟨_, _, hv⟩ := sessionE_spec H B fuel hfuel hB ds se hse hi
  exact (valid_sinv_mono B _ _ (valid_take B _ _ k hv).1 hi).2.files x

/-- `SInv` is an invariant of every history, starting from the empty dataset -/
theorem C06_history_sinv (H : SList → Nat) (B fuel : Nat) (hfuel : B < fuel + 1) (hB : 1 ≤ B) :
    ∀ (hist : List Session) (ds : DS), SInv B ds.fs → (∀ se ∈ hist, ∀ w ∈ se, w.1 ≠ [] ∧ w.1.length ≤ B) →
      SInv B (hist.foldl (session H fuel) ds).fs := by
  intro hist
  induction hist with
  | nil => intro ds h _; exact h
  | cons se rest ih =>
    intro ds hi hh
    simp only [List.foldl_cons]
    refine ih _ ?_ (fun se' h' => hh se' (List.mem_cons_of_mem _ h'))
    obtain ⟨_, hst, hv⟩ := sessionE_spec H B fuel hfuel hB ds se (hh se List.mem_cons_self) hi
    rw [hst]; exact (valid_sinv_mono B _ _ hv hi).1

theorem C06_empty_sinv (B : Nat) : SInv B (fun _ => none) :=
  ⟨fun d l h => by simp at h, fun d l h => by simp at h, fun d l h => by simp at h⟩

/-- **Every history, every crash point.**  Start from the empty dataset, complete any history of sessions, then let a further
session `se` die after any number `k` of its metadata installs: the store is well formed and free of dangling records, every
shard the completed history made enumerable is still enumerated (in its list's order), and nothing is enumerated that was not
committed or closed by `se`. -/
theorem C06_history_crash_points (H : SList → Nat) (B fuel : Nat) (hfuel : B < fuel + 1) (hB : 1 ≤ B)
    (hist : List Session) (hh : ∀ se ∈ hist, ∀ w ∈ se, w.1 ≠ [] ∧ w.1.length ≤ B)
    (se : Session) (hse : ∀ w ∈ se, w.1 ≠ [] ∧ w.1.length ≤ B) (k s : Nat) :
    let ds := hist.foldl (session H fuel) { fs := fun _ => none, splits := fun _ => none }
    let c := applyInstalls ds.fs ((sessionE H fuel ds se).2.take k)
    SInv B c ∧
    (∀ sh, sh ∈ shardsOf fuel ds.fs [s] → sh ∈ shardsOf fuel c [s]) ∧
    (∀ sh, sh ∈ shardsOf fuel c [s] → sh ∈ shardsOf fuel ds.fs [s] ∨ ∃ w ∈ se, w.1.headD 0 = s ∧ sh ∈ w.2) ∧
    (∀ x, filesAt ds.fs x <+: filesAt c x) := by
  intro ds c
  obtain ⟨hg, hl⟩ := C08_history_invariant H B fuel hfuel hB hist hh
  have hi : SInv B ds.fs := C06_history_sinv H B fuel hfuel hB hist _ (C06_empty_sinv B) hh
  obtain ⟨h1, h2, h3⟩ := C06_session_crash_points H B fuel hfuel hB ds se hse hg hi hl k s
  exact ⟨h1, h2, h3, fun x => C06_crash_point_keeps_list_order H B fuel hfuel hB ds se hse hi k x⟩

/-- Non-vacuity and a test of the emitted order: one session writing into `train/a` (0/5) and `train` (0) of an empty
dataset installs the two leaf lists (after the shards were closed), the same two on exit, then `train/a`, then `train`. -/
example : ((sessionE (fun _ => 7) 4 { fs := fun _ => none, splits := fun _ => none }
    [([0, 5], [{ file := 1, n := 2 }]), ([0], [{ file := 2, n := 1 }])]).2.map (·.1)) = [[0, 5], [0], [0, 5], [0], [0, 5], [0]] := by decide

end Sedpack.Tree
