import SedpackProofs.TreeEnum
import SedpackProofs.Crash
import SedpackProofs.TreeCrash
import SedpackProofs.TreeCrashRefine
import SedpackProofs.TreeHeal
import SedpackProps.C08
/-!
# C06 ↔ M-TREE: the merge of the code-shaped model obeys M-CRASH's install discipline

M-CRASH accepts an `install d doc` only if `doc` extends the document it replaces (same shard entries or more, no child
dropped), names only children whose own documents are already installed, and those lie exactly one level deeper.  The
harness checks that the *observed* effect order of the real code satisfies these guards; here the same facts are derived,
for every store, every depth and every set of updates, from the code-shaped model of `merge_shard_infos`: the document it
writes at a directory is computed from the infos *returned by* the merges of its children, so those were written before.
-/
namespace Sedpack.Tree

/-- **Children first, documents only grow** — at every level of the recursion. -/
theorem C06_merge_respects_install_discipline (H : SList → Nat) (B fuel : Nat) (fs : FS) (d : Dir) (us : List Kid)
    (hfuel : B < fuel + d.length) (hpre : Pre B fs d us) : InstallOK fs (merge H fuel fs d us).1 d :=
  merge_installOK H B fuel fs d us hfuel hpre

/-- the same for every split of a whole `write_config`: after a completed session each split root document exists and
every child record anywhere in the tree points to an existing document (nothing dangling is ever reachable) -/
theorem C06_session_no_dangling_child (H : SList → Nat) (B fuel : Nat) (hfuel : B < fuel + 1) (hB : 1 ≤ B) (ds : DS) (se : Session)
    (hse : ∀ w ∈ se, w.1 ≠ [] ∧ w.1.length ≤ B) (hg : Good H B ds) (s : Nat) (k : Kid)
    (hk : (session H fuel ds se).splits s = some k) (x : Dir) (hx : Reaches (session H fuel ds se).fs [s] x) :
    (session H fuel ds se).fs x ≠ none := by
  obtain ⟨hgood, _⟩ := session_good H B fuel hfuel hB ds se hse hg
  obtain ⟨hkd, hex⟩ := hgood.exact s k hk
  -- exactness is hereditary along reachability
  have key : ∀ (k : Kid), Exact H (session H fuel ds se).fs k → ∀ x, Reaches (session H fuel ds se).fs k.dir x →
      (session H fuel ds se).fs x ≠ none := by
    intro k hexk
    induction hexk with
    | @mk k l hget _ _ _ _ hkids ih =>
      intro x hx
      cases hx with
      | refl => rw [hget]; simp
      | @step _ _ c l2 hget2 hc hcx =>
        rw [hget] at hget2; cases hget2
        exact ih c hc x hcx
  rw [← hkd] at hx
  exact key k hex x hx

/-! ## Crash points of the code-shaped model

`sessionE` (SedpackModel/TreeCrash.lean) is `session` emitting every list document it installs, in program order.  A crash
state of the metadata is the store after a prefix of that sequence; the description still names the old split table (or the
new one, after the last install).  The theorems quantify over every dataset, every session shape, every depth and every
prefix length. -/

/-- the effect-emitting session computes the same dataset as `session`, and its installs reproduce its store -/
theorem C06_effects_refine_session (H : SList → Nat) (B fuel : Nat) (hfuel : B < fuel + 1) (hB : 1 ≤ B) (ds : DS) (se : Session)
    (hse : ∀ w ∈ se, w.1 ≠ [] ∧ w.1.length ≤ B) (hi : SInv B ds.fs) :
    (sessionE H fuel ds se).1 = session H fuel ds se ∧
    (session H fuel ds se).fs = applyInstalls ds.fs (sessionE H fuel ds se).2 :=
  ⟨(sessionE_spec H B fuel hfuel hB ds se hse hi).1, (sessionE_spec H B fuel hfuel hB ds se hse hi).2.1⟩

/-- **children first, documents only grow**: the emitted sequence satisfies M-CRASH's install discipline at every step -/
theorem C06_session_installs_valid (H : SList → Nat) (B fuel : Nat) (hfuel : B < fuel + 1) (hB : 1 ≤ B) (ds : DS) (se : Session)
    (hse : ∀ w ∈ se, w.1 ≠ [] ∧ w.1.length ≤ B) (hi : SInv B ds.fs) : Valid B ds.fs (sessionE H fuel ds se).2 :=
  (sessionE_spec H B fuel hfuel hB ds se hse hi).2.2

/-- **Every crash point of a session.**  After any number `k` of the session's installs: every list document is well formed
and names only documents that exist (`SInv`); every shard enumerated before the session is still enumerated; and every
enumerated shard was either committed before or is a shard the session closed — never anything else. -/
theorem C06_session_crash_points (H : SList → Nat) (B fuel : Nat) (hfuel : B < fuel + 1) (hB : 1 ≤ B) (ds : DS) (se : Session)
    (hse : ∀ w ∈ se, w.1 ≠ [] ∧ w.1.length ≤ B) (hg : Good H B ds) (hi : SInv B ds.fs) (hl : Linked ds.fs) (k s : Nat) :
    SInv B (applyInstalls ds.fs ((sessionE H fuel ds se).2.take k)) ∧
    (∀ sh, sh ∈ shardsOf fuel ds.fs [s] → sh ∈ shardsOf fuel (applyInstalls ds.fs ((sessionE H fuel ds se).2.take k)) [s]) ∧
    (∀ sh, sh ∈ shardsOf fuel (applyInstalls ds.fs ((sessionE H fuel ds se).2.take k)) [s] →
      sh ∈ shardsOf fuel ds.fs [s] ∨ ∃ w ∈ se, w.1.headD 0 = s ∧ sh ∈ w.2) := by
  obtain ⟨_, hst, hv⟩ := sessionE_spec H B fuel hfuel hB ds se hse hi
  obtain ⟨h1, h2, h3⟩ := valid_crash_point B fuel ds.fs _ hv hi k [s] (by simpa using hB) (by simp; omega)
  refine ⟨h1, h2, fun sh h => ?_⟩
  have := h3 sh h
  rw [← hst] at this
  exact (session_adds_exactly H B fuel hfuel hB ds se hse hg hl s sh).mp this

/-- **Every crash point of a multi-writer call** (`write_multiprocessing`: the fillers `fl` one after the other, each rewriting
its own lists, then the merges in the parent): the same three facts, for every number of fillers and every prefix. -/
theorem C06_multiwriter_crash_points (H : SList → Nat) (B fuel : Nat) (hfuel : B < fuel + 1) (hB : 1 ≤ B) (ds : DS) (fl : List Session)
    (hse : ∀ w ∈ fl.flatten, w.1 ≠ [] ∧ w.1.length ≤ B) (hg : Good H B ds) (hi : SInv B ds.fs) (hl : Linked ds.fs) (k s : Nat) :
    SInv B (applyInstalls ds.fs ((multiSessionE H fuel ds fl).2.take k)) ∧
    (∀ sh, sh ∈ shardsOf fuel ds.fs [s] → sh ∈ shardsOf fuel (applyInstalls ds.fs ((multiSessionE H fuel ds fl).2.take k)) [s]) ∧
    (∀ sh, sh ∈ shardsOf fuel (applyInstalls ds.fs ((multiSessionE H fuel ds fl).2.take k)) [s] →
      sh ∈ shardsOf fuel ds.fs [s] ∨ ∃ f ∈ fl, ∃ w ∈ f, w.1.headD 0 = s ∧ sh ∈ w.2) := by
  obtain ⟨_, hst, hv⟩ := multiSessionE_spec H B fuel hfuel hB ds fl hse hi
  obtain ⟨h1, h2, h3⟩ := valid_crash_point B fuel ds.fs _ hv hi k [s] (by simpa using hB) (by simp; omega)
  refine ⟨h1, h2, fun sh h => ?_⟩
  have := h3 sh h
  rw [← hst] at this
  rcases (session_adds_exactly H B fuel hfuel hB ds fl.flatten hse hg hl s sh).mp this with h | ⟨w, hw, h5, h6⟩
  · exact Or.inl h
  · obtain ⟨f, hf, hwf⟩ := List.mem_flatten.mp hw
    exact Or.inr ⟨f, hf, w, hwf, h5, h6⟩

theorem mem_closesOf {ws : List WEff} {w : Dir × List Shard} (h : w ∈ closesOf ws) : ∃ sh, w.2 = [sh] ∧ WEff.close w.1 sh ∈ ws := by
  induction ws with
  | nil => simp [closesOf] at h
  | cons e r ih =>
    cases e with
    | close d sh =>
      simp only [closesOf, List.mem_cons] at h
      rcases h with rfl | h
      · exact ⟨sh, rfl, List.mem_cons_self⟩
      · obtain ⟨sh', h1, h2⟩ := ih h; exact ⟨sh', h1, List.mem_cons_of_mem _ h2⟩
    | rewrite d =>
      simp only [closesOf] at h
      obtain ⟨sh', h1, h2⟩ := ih h; exact ⟨sh', h1, List.mem_cons_of_mem _ h2⟩

/-- **Worker processes, any schedule.**  With real worker processes the effects of the writers of a multi-writer call reach the
disk in some interleaving `ws` (closed shards, each followed at once by a rewrite of its list; rewrites of lists as they stand),
followed by the parent's merges.  For *every* such schedule and every prefix of the resulting installs: no dangling record, every
committed shard still enumerated, nothing enumerated that was not committed or closed by a worker.  (`RewOK`: a rewrite targets a
list that exists — a filler only rewrites lists it has written.) -/
theorem C06_concurrent_writers_crash_points (H : SList → Nat) (B fuel : Nat) (hfuel : B < fuel + 1) (hB : 1 ≤ B) (ds : DS)
    (ws : List WEff) (hse : ∀ w ∈ closesOf ws, w.1 ≠ [] ∧ w.1.length ≤ B) (hrw : RewOK ds.fs ws)
    (hg : Good H B ds) (hi : SInv B ds.fs) (hl : Linked ds.fs) (k s : Nat) :
    SInv B (applyInstalls ds.fs ((concurrentCallE H fuel ds ws).2.take k)) ∧
    (∀ sh, sh ∈ shardsOf fuel ds.fs [s] → sh ∈ shardsOf fuel (applyInstalls ds.fs ((concurrentCallE H fuel ds ws).2.take k)) [s]) ∧
    (∀ sh, sh ∈ shardsOf fuel (applyInstalls ds.fs ((concurrentCallE H fuel ds ws).2.take k)) [s] →
      sh ∈ shardsOf fuel ds.fs [s] ∨ ∃ d, d.headD 0 = s ∧ WEff.close d sh ∈ ws) := by
  obtain ⟨hv, hrest⟩ := concurrentCallE_spec H B fuel hfuel hB ds ws hse hi
  obtain ⟨_, hst⟩ := hrest hrw
  obtain ⟨h1, h2, h3⟩ := valid_crash_point B fuel ds.fs _ hv hi k [s] (by simpa using hB) (by simp; omega)
  refine ⟨h1, h2, fun sh h => ?_⟩
  have := h3 sh h
  rw [← hst] at this
  rcases (session_adds_exactly H B fuel hfuel hB ds (closesOf ws) hse hg hl s sh).mp this with h | ⟨w, hw, h5, h6⟩
  · exact Or.inl h
  · obtain ⟨sh', hw2, hmem⟩ := mem_closesOf hw
    rw [hw2] at h6
    simp only [List.mem_singleton] at h6
    subst h6
    exact Or.inr ⟨w.1, h5, hmem⟩

/-- the order of the committed shards of every list is kept at every crash point -/
theorem C06_crash_point_keeps_list_order (H : SList → Nat) (B fuel : Nat) (hfuel : B < fuel + 1) (hB : 1 ≤ B) (ds : DS) (se : Session)
    (hse : ∀ w ∈ se, w.1 ≠ [] ∧ w.1.length ≤ B) (hi : SInv B ds.fs) (k : Nat) (x : Dir) :
    filesAt ds.fs x <+: filesAt (applyInstalls ds.fs ((sessionE H fuel ds se).2.take k)) x := by
  obtain ⟨_, _, hv⟩ := sessionE_spec H B fuel hfuel hB ds se hse hi
  exact (valid_sinv_mono B _ _ (valid_take B _ _ k hv).1 hi).2.files x

/-- **The code-shaped model refines M-CRASH.**  Read as M-CRASH `install` labels, the documents a writing call installs are
accepted by M-CRASH from the abstraction of the dataset it continues — every guard of `Crash.step` (listed shards closed,
children installed first and exactly one level deeper, documents only grow) holds at every step — provided the shard files the
final lists name are closed (`C`: the filler lists a shard only after `Shard.close()` returned, `C06_src_closed_before_listed`).
Hence every theorem of `C06.lean` about reachable M-CRASH states applies to every crash point of the code-shaped model. -/
theorem C06_code_shaped_trace_accepted_by_M_CRASH (H : SList → Nat) (B fuel : Nat) (hfuel : B < fuel + 1) (hB : 1 ≤ B) (ds : DS)
    (fl : List Session) (hse : ∀ w ∈ fl.flatten, w.1 ≠ [] ∧ w.1.length ≤ B) (hi : SInv B ds.fs) (C : List Nat) (R : List Dir)
    (hC : ∀ x, ∀ sh ∈ filesAt (session H fuel ds fl.flatten).fs x, sh.file ∈ C) :
    Crash.accepts (absSt ds.fs C R) ((multiSessionE H fuel ds fl).2.map toLbl) =
      some (absSt (session H fuel ds fl.flatten).fs C R) := by
  obtain ⟨_, hst, hv⟩ := multiSessionE_spec H B fuel hfuel hB ds fl hse hi
  rw [hst]
  apply valid_accepted B C R _ _ hv
  intro i him f hf
  have := (valid_files_le_final B _ _ hv hi i him).subset hf
  rw [← hst] at this
  exact hC i.1 f this

theorem mergeSplits_splits_mono (H : SList → Nat) (fuel : Nat) (dirs : List Dir) : ∀ (ss : List Nat) (ds : DS) (s : Nat),
    ds.splits s ≠ none → (mergeSplits H fuel dirs ss ds).splits s ≠ none := by
  intro ss
  induction ss with
  | nil => intro ds s h; exact h
  | cons a rest ih =>
    intro ds s h
    simp only [mergeSplits]
    apply ih
    by_cases hs : s = a
    · simp [hs]
    · simpa [hs] using h

/-- the roots the description names, for the splits `ss` -/
def rootsOf (ds : DS) (ss : List Nat) : List Dir := ss.filterMap (fun s => (ds.splits s).map (·.dir))

/-- **… and the description last**: after the call's list installs, replacing `dataset_info.json` by the new split table is
accepted by M-CRASH as well: every root it names is installed, and no split of the old description is dropped. -/
theorem C06_description_install_accepted (H : SList → Nat) (B fuel : Nat) (hfuel : B < fuel + 1) (hB : 1 ≤ B) (ds : DS)
    (se : Session) (hse : ∀ w ∈ se, w.1 ≠ [] ∧ w.1.length ≤ B) (hg : Good H B ds) (C : List Nat) (ss : List Nat) :
    Crash.step (absSt (session H fuel ds se).fs C (rootsOf ds ss)) (.installInfo (rootsOf (session H fuel ds se) ss)) =
      some (absSt (session H fuel ds se).fs C (rootsOf (session H fuel ds se) ss)) := by
  obtain ⟨hgood, _⟩ := session_good H B fuel hfuel hB ds se hse hg
  have h1 : (rootsOf (session H fuel ds se) ss).all (fun r => (((session H fuel ds se).fs r).map toDoc).isSome) = true := by
    simp only [rootsOf, List.all_eq_true, List.mem_filterMap]
    rintro r ⟨s, _, hr⟩
    cases hsp : (session H fuel ds se).splits s with
    | none => simp [hsp] at hr
    | some k =>
      simp [hsp] at hr; subst hr
      obtain ⟨_, hex⟩ := hgood.exact s k hsp
      cases hex with
      | @mk _ l hget _ _ _ _ _ => simp [hget]
  have h2 : Crash.sub (rootsOf ds ss) (rootsOf (session H fuel ds se) ss) = true := by
    simp only [Crash.sub, rootsOf, List.all_eq_true, List.contains_iff_mem, List.mem_filterMap]
    rintro r ⟨s, hs, hr⟩
    cases hsp : ds.splits s with
    | none => simp [hsp] at hr
    | some k =>
      simp [hsp] at hr; subst hr
      have hne : (session H fuel ds se).splits s ≠ none := by
        simp only [session]
        exact mergeSplits_splits_mono H fuel _ _ _ s (by simp [hsp])
      cases hsp' : (session H fuel ds se).splits s with
      | none => exact absurd hsp' hne
      | some k' =>
        refine ⟨s, hs, ?_⟩
        rw [hsp', Option.map_some, (hgood.exact s k' hsp').1, (hg.exact s k hsp).1]
  simp only [Crash.step, absSt, h1, h2, and_self, if_true]

/-- `SInv` is an invariant of every history, starting from the empty dataset -/
theorem C06_history_sinv (H : SList → Nat) (B fuel : Nat) (hfuel : B < fuel + 1) (hB : 1 ≤ B) :
    ∀ (hist : List Session) (ds : DS), SInv B ds.fs → (∀ se ∈ hist, ∀ w ∈ se, w.1 ≠ [] ∧ w.1.length ≤ B) →
      SInv B (hist.foldl (session H fuel) ds).fs := by
  intro hist
  induction hist with
  | nil => intro ds h _; exact h
  | cons se rest ih =>
    intro ds hi hh
    simp only [List.foldl_cons]
    refine ih _ ?_ (fun se' h' => hh se' (List.mem_cons_of_mem _ h'))
    obtain ⟨_, hst, hv⟩ := sessionE_spec H B fuel hfuel hB ds se (hh se List.mem_cons_self) hi
    rw [hst]; exact (valid_sinv_mono B _ _ hv hi).1

theorem C06_empty_sinv (B : Nat) : SInv B (fun _ => none) :=
  ⟨fun d l h => by simp at h, fun d l h => by simp at h, fun d l h => by simp at h⟩

/-- **Every history, every crash point.**  Start from the empty dataset, complete any history of sessions, then let a further
session `se` die after any number `k` of its metadata installs: the store is well formed and free of dangling records, every
shard the completed history made enumerable is still enumerated (in its list's order), and nothing is enumerated that was not
committed or closed by `se`. -/
theorem C06_history_crash_points (H : SList → Nat) (B fuel : Nat) (hfuel : B < fuel + 1) (hB : 1 ≤ B)
    (hist : List Session) (hh : ∀ se ∈ hist, ∀ w ∈ se, w.1 ≠ [] ∧ w.1.length ≤ B)
    (se : Session) (hse : ∀ w ∈ se, w.1 ≠ [] ∧ w.1.length ≤ B) (k s : Nat) :
    let ds := hist.foldl (session H fuel) { fs := fun _ => none, splits := fun _ => none }
    let c := applyInstalls ds.fs ((sessionE H fuel ds se).2.take k)
    SInv B c ∧
    (∀ sh, sh ∈ shardsOf fuel ds.fs [s] → sh ∈ shardsOf fuel c [s]) ∧
    (∀ sh, sh ∈ shardsOf fuel c [s] → sh ∈ shardsOf fuel ds.fs [s] ∨ ∃ w ∈ se, w.1.headD 0 = s ∧ sh ∈ w.2) ∧
    (∀ x, filesAt ds.fs x <+: filesAt c x) := by
  intro ds c
  obtain ⟨hg, hl⟩ := C08_history_invariant H B fuel hfuel hB hist hh
  have hi : SInv B ds.fs := C06_history_sinv H B fuel hfuel hB hist _ (C06_empty_sinv B) hh
  obtain ⟨h1, h2, h3⟩ := C06_session_crash_points H B fuel hfuel hB ds se hse hg hi hl k s
  exact ⟨h1, h2, h3, fun x => C06_crash_point_keeps_list_order H B fuel hfuel hB ds se hse hi k x⟩

/-- **The next completed session heals.**  Take *any* well-formed store — in particular the store after any prefix of any
session's installs (`C06_session_crash_points` gives `SInv`), where parents may record stale totals and digests of children that
were already rewritten — and any split table.  After a completed session, every split the session wrote into is recorded by an
*exact* entry again (digests and totals of every list reachable from it are right), so the integrity check of those splits passes
(`C05_check_complete`).  Nothing has to be repaired by hand after a crash. -/
theorem C06_next_session_heals (H : SList → Nat) (B fuel : Nat) (hfuel : B < fuel + 1) (hB : 1 ≤ B) (c : FS) (splits : Nat → Option Kid)
    (hwf : WF c) (hd : DepthOK c B) (se : Session) (hse : ∀ w ∈ se, w.1 ≠ [] ∧ w.1.length ≤ B) :
    ∀ w ∈ se, ∃ k, (session H fuel { fs := c, splits := splits } se).splits (w.1.headD 0) = some k ∧ k.dir = [w.1.headD 0] ∧
      Exact H (session H fuel { fs := c, splits := splits } se).fs k := by
  intro w hw
  obtain ⟨a, b, _, _⟩ := applyWrites_props B se c hwf hd
  have hdirs : ∀ d ∈ se.map (·.1), d ≠ [] ∧ d.length ≤ B := by
    intro d hd'; obtain ⟨w', hw', rfl⟩ := List.mem_map.mp hd'; exact hse w' hw'
  have hmem : w.1.headD 0 ∈ dedup ((se.map (·.1)).map (fun d => d.headD 0)) := by
    rw [mem_dedup]; exact List.mem_map.mpr ⟨w.1, List.mem_map.mpr ⟨w, hw, rfl⟩, rfl⟩
  exact mergeSplits_heals H B fuel hfuel hB (se.map (·.1)) hdirs _ (DS.mk (applyWrites c se) splits) (nodup_dedup _) a b _ hmem

/-- … in particular after a crash at any point of any session continuing any history -/
theorem C06_crash_then_session_heals (H : SList → Nat) (B fuel : Nat) (hfuel : B < fuel + 1) (hB : 1 ≤ B)
    (hist : List Session) (hh : ∀ se ∈ hist, ∀ w ∈ se, w.1 ≠ [] ∧ w.1.length ≤ B)
    (crashed : Session) (hc : ∀ w ∈ crashed, w.1 ≠ [] ∧ w.1.length ≤ B) (k : Nat)
    (next : Session) (hn : ∀ w ∈ next, w.1 ≠ [] ∧ w.1.length ≤ B) :
    let ds := hist.foldl (session H fuel) { fs := fun _ => none, splits := fun _ => none }
    let c := applyInstalls ds.fs ((sessionE H fuel ds crashed).2.take k)
    ∀ w ∈ next, ∃ kd, (session H fuel { fs := c, splits := ds.splits } next).splits (w.1.headD 0) = some kd ∧
      Exact H (session H fuel { fs := c, splits := ds.splits } next).fs kd := by
  intro ds c w hw
  have hi : SInv B ds.fs := C06_history_sinv H B fuel hfuel hB hist _ (C06_empty_sinv B) hh
  obtain ⟨_, _, hv⟩ := sessionE_spec H B fuel hfuel hB ds crashed hc hi
  have hsi := (valid_sinv_mono B _ _ (valid_take B _ _ k hv).1 hi).1
  obtain ⟨kd, h1, _, h3⟩ := C06_next_session_heals H B fuel hfuel hB c ds.splits hsi.wf hsi.depth next hn w hw
  exact ⟨kd, h1, h3⟩

/-- Non-vacuity and a test of the emitted order: one session writing into `train/a` (0/5) and `train` (0) of an empty
dataset installs the two leaf lists (after the shards were closed), the same two on exit, then `train/a`, then `train`. -/
example : ((sessionE (fun _ => 7) 4 { fs := fun _ => none, splits := fun _ => none }
    [([0, 5], [{ file := 1, n := 2 }]), ([0], [{ file := 2, n := 1 }])]).2.map (·.1)) = [[0, 5], [0], [0, 5], [0], [0, 5], [0]] := by decide

end Sedpack.Tree
