import SedpackProps.C10
import SedpackProps.C03
import SedpackProofs.TreeEnum
/-!
# C03 / C04 / C08, end to end: a filler session seen from the reader

M-FILL says which shards a root filler session closes for a split (in closing order, with the examples each holds);
M-TREE says what the reader's depth-first walk enumerates after `write_config`.  Composed: the examples a reader gets
from the split's own shard list after the session are the examples it got before followed by exactly the accepted
writes of the session, in write order — for every sequence of writes (rejected ones included, any interleaving of
splits and metadata values, any shard size) and every earlier history.
-/
namespace Sedpack.System
open Sedpack

/-- the shard entry the filler records for a closed shard (`file` is its fresh name) -/
def toShard (file : Nat) (c : Fill.Closed) : Tree.Shard :=
  { file := file, n := c.n, exs := c.exs.map (·.1), md := c.md }

/-- the shard entries a root filler session closes for split `s` (none when it closed no shard there) -/
def shardsFor (eps : Nat) (ops : List Fill.Op) (name : Nat → Nat → Nat) (s : Nat) : Option (List Tree.Shard) :=
  match Fill.listed eps ops s with
  | some (c :: cs) => some ((List.range' 0 (c :: cs).length).zipWith (fun i cl => toShard (name s i) cl) (c :: cs))
  | _ => none

/-- the session a root filler hands to `write_config`: for every split it closed shards in, those shards in closing order -/
def fillerSession (eps : Nat) (ops : List Fill.Op) (name : Nat → Nat → Nat) (splits : List Nat) : Tree.Session :=
  splits.filterMap (fun s => (shardsFor eps ops name s).map (fun sh => ([s], sh)))

/-- the examples stored in a list of shard entries, in order -/
def examples (l : List Tree.Shard) : List Nat := l.flatMap (·.exs)

theorem examples_zipWith (name : Nat → Nat) : ∀ (cl : List Fill.Closed) (k : Nat),
    examples ((List.range' k cl.length).zipWith (fun i c => toShard (name i) c) cl) = (cl.flatMap (·.exs)).map (·.1) := by
  intro cl
  induction cl with
  | nil => intro k; simp [examples]
  | cons c cs ih =>
    intro k
    simp only [List.length_cons, List.range'_succ, List.zipWith_cons_cons, examples, List.flatMap_cons, List.map_append]
    have := ih (k + 1)
    simp only [examples] at this
    rw [this]; rfl

theorem newAt_filterMap (g : Nat → Option (List Tree.Shard)) (s : Nat) : ∀ (splits : List Nat), splits.Nodup →
    Tree.newAt (splits.filterMap (fun a => (g a).map (fun sh => ([a], sh)))) [s] = if s ∈ splits then (g s).getD [] else [] := by
  intro splits
  induction splits with
  | nil => intro _; simp [Tree.newAt]
  | cons a as ih =>
    intro hnd
    simp only [List.nodup_cons] at hnd
    have ih' := ih hnd.2
    simp only [List.filterMap_cons]
    cases hga : g a with
    | none =>
      simp only [Option.map_none]
      rw [ih']
      by_cases has : s = a
      · subst has; simp [hnd.1, hga]
      · simp [has]
    | some sh =>
      simp only [Option.map_some, Tree.newAt, List.filter_cons]
      by_cases has : s = a
      · subst has
        have : Tree.newAt (as.filterMap (fun a => (g a).map (fun sh => ([a], sh)))) [s] = [] := by rw [ih']; simp [hnd.1]
        simp only [Tree.newAt] at this
        simp [this, hga]
      · have hne : ¬ ([a] : List Nat) = [s] := by simpa using fun h => has h.symm
        simp only [hne, decide_false]
        have := ih'
        simp only [Tree.newAt] at this
        rw [show (if s ∈ a :: as then (g s).getD [] else []) = (if s ∈ as then (g s).getD [] else []) by simp [has]]
        simpa using this

theorem newAt_fillerSession (eps : Nat) (ops : List Fill.Op) (name : Nat → Nat → Nat) (splits : List Nat) (hnd : splits.Nodup)
    (s : Nat) (hs : s ∈ splits) (cl : List Fill.Closed) (hl : Fill.listed eps ops s = some cl) :
    examples (Tree.newAt (fillerSession eps ops name splits) [s]) = (cl.flatMap (·.exs)).map (·.1) := by
  rw [fillerSession, newAt_filterMap (shardsFor eps ops name) s splits hnd, if_pos hs]
  simp only [shardsFor, hl]
  cases cl with
  | nil => simp [examples]
  | cons c cs => simpa using examples_zipWith (name s) (c :: cs) 0

/-- **End to end: write order and exactly-once for a root filler session.**  After a filler session made of the
operations `ops` (any interleaving of splits, metadata values, rejected writes; `eps ≥ 1`), the examples held by the shard
entries of split `s`'s own list are those held before followed by exactly the accepted writes to `s`, in write order. -/
theorem C03_filler_session_end_to_end (H : Tree.SList → Nat) (B fuel eps : Nat) (hfuel : B < fuel + 1) (hB : 1 ≤ B) (heps : 1 ≤ eps)
    (ds : Tree.DS) (hg : Tree.Good H B ds) (ops : List Fill.Op) (name : Nat → Nat → Nat) (splits : List Nat) (hnd : splits.Nodup)
    (s : Nat) (hs : s ∈ splits) :
    examples (Tree.filesAt (Tree.session H fuel ds (fillerSession eps ops name splits)).fs [s]) =
      examples (Tree.filesAt ds.fs [s]) ++ (Fill.accepted ops s).map (·.1) := by
  have hse : ∀ w ∈ fillerSession eps ops name splits, w.1 ≠ [] ∧ w.1.length ≤ B := by
    intro w hw
    simp only [fillerSession, List.mem_filterMap] at hw
    obtain ⟨a, _, haw⟩ := hw
    cases hsf : shardsFor eps ops name a with
    | none => simp [hsf] at haw
    | some sh => simp [hsf] at haw; rw [← haw]; simp; omega
  obtain ⟨_, _, _, hfiles, _⟩ := Tree.session_good H B fuel hfuel hB ds _ hse hg
  obtain ⟨cl, hl, _, hacc, _⟩ := Fill.listed_spec eps heps ops s
  rw [hfiles [s], Tree.applyWrites_files]
  simp only [examples, List.flatMap_append]
  congr 1
  have := newAt_fillerSession eps ops name splits hnd s hs cl hl
  simp only [examples] at this
  rw [this, hacc]

/-- … and when the split has no child lists (only root filler sessions so far), this *is* what every reader enumerates. -/
theorem C03_enumeration_of_flat_split (fuel : Nat) (fs : Tree.FS) (s : Nat) (l : Tree.SList) (h : fs [s] = some l) (hk : l.kids = []) :
    examples (Tree.shardsOf (fuel + 1) fs [s]) = examples (Tree.filesAt fs [s]) := by
  simp [Tree.shardsOf, h, hk, Tree.filesAt]

/-- reading a list of shard entries through the unshuffled interfaces: shard `i` of the list holds `(L[i]).exs` -/
def shardEx (L : List Tree.Shard) (i : Nat) : List Nat := (L[i]?.map (·.exs)).getD []

theorem flatMap_shardEx_aux : ∀ (L pre : List Tree.Shard),
    (List.range L.length).flatMap (fun i => shardEx (pre ++ L) (pre.length + i)) = examples L := by
  intro L
  induction L with
  | nil => intro pre; simp [examples]
  | cons a L ih =>
    intro pre
    rw [List.length_cons, List.range_succ_eq_map, List.flatMap_cons, List.flatMap_map]
    have h0 : shardEx (pre ++ a :: L) (pre.length + 0) = a.exs := by simp [shardEx]
    have := ih (pre ++ [a])
    simp only [List.append_assoc, List.singleton_append, List.length_append, List.length_singleton] at this
    rw [h0]
    simp only [examples, List.flatMap_cons]
    congr 1
    show _ = examples L
    rw [← this]
    have hf : (fun i => shardEx (pre ++ a :: L) (pre.length + Nat.succ i)) = (fun i => shardEx (pre ++ a :: L) (pre.length + 1 + i)) := by
      funext i; congr 1; omega
    simp only [Function.comp, hf]

theorem flatMap_shardEx (L : List Tree.Shard) : (List.range L.length).flatMap (shardEx L) = examples L := by
  simpa using flatMap_shardEx_aux L []

/-- **From `write_example` to the reader, all three pure-Python unshuffled interfaces, every read parallelism.**
For a split whose list has no child lists, after a root filler session every unshuffled pass yields the examples it
yielded before followed by the accepted writes of the session in write order. -/
theorem C03_reader_sees_write_order (H : Tree.SList → Nat) (B fuel eps T T' : Nat) (hfuel : B < fuel + 1) (hB : 1 ≤ B) (heps : 1 ≤ eps) (hT : 0 < T)
    (ds : Tree.DS) (hg : Tree.Good H B ds) (ops : List Fill.Op) (name : Nat → Nat → Nat) (splits : List Nat) (hnd : splits.Nodup)
    (s : Nat) (hs : s ∈ splits) (o1 o2 o3 : List Nat)
    (L : List Tree.Shard) (hL : L = Tree.filesAt (Tree.session H fuel ds (fillerSession eps ops name splits)).fs [s])
    (h1 : Pipe.SyncRun 0 (List.range L.length) (shardEx L) id o1)
    (h2 : Pipe.ConcurrentRun 0 T (List.range L.length) (shardEx L) id o2)
    (h3 : Pipe.AsyncRun 0 T' (List.range L.length) (shardEx L) id o3) :
    o1 = examples (Tree.filesAt ds.fs [s]) ++ (Fill.accepted ops s).map (·.1) ∧ o2 = o1 ∧ o3 = o1 := by
  have hend := C03_filler_session_end_to_end H B fuel eps hfuel hB heps ds hg ops name splits hnd s hs
  rw [← hL] at hend
  have e1 := Pipe.C03_sync_unshuffled_eq _ _ _ _ h1
  have e2 := Pipe.C03_concurrent_unshuffled_eq T hT _ _ _ _ h2
  have e3 := Pipe.C03_async_unshuffled_eq T' _ _ _ _ h3
  simp only [List.map_id, flatMap_shardEx] at e1 e2 e3
  rw [hend] at e1 e2 e3
  exact ⟨e1, by rw [e2, e1], by rw [e3, e1]⟩

end Sedpack.System
