import SedpackProofs.TreeInterleave
import SedpackProofs.TreeEnum
/-!
# C09 — Parallel writers do not interfere

Each writer of the multi-writer call gets a filler rooted in its own random sub-directory
(`split/<uuid_i>/`) and only appends shards to the lists of its own directories; the parent merges
afterwards.  An execution of the worker processes is an interleaving of the writers' effect
sequences.  Quantifiers: every number of writers, every load, every interleaving.
`multiprocessing.Pool.imap` returning results in argument order is a specified external.
-/
namespace Sedpack.Tree

/-- **Every interleaving of writers with pairwise distinct directories leaves the same store as
running them one after another.** -/
theorem C09_interleaving_eq_sequential (fs : FS) (ws : List (List Eff)) (hown : OwnDirs ws) (il : List Eff)
    (hil : IsInterleaving ws il) : applyEffs fs il = applyEffs fs ws.flatten :=
  interleaving_eq_sequential fs ws hown il hil

/-- writer `i` of a multi-writer call writes only below `[split, u i]` for its own name `u i`;
distinct names give pairwise disjoint directories -/
theorem C09_writer_footprint (u : Nat → Nat) (hinj : ∀ i j, u i = u j → i = j) (ws : List (List Eff))
    (hw : ∀ i, ∀ e ∈ ws.getD i [], e.writer = i ∧ ∃ s, e.dir = [s, u i]) : OwnDirs ws := by
  refine ⟨fun i e he => (hw i e he).1, ?_⟩
  intro i j hij e he f hf hd
  obtain ⟨_, s, hs⟩ := hw i e he
  obtain ⟨_, t, ht⟩ := hw j f hf
  rw [hs, ht] at hd
  simp at hd
  exact hij (hinj i j hd.2)

/-- hence the whole call — any schedule of the workers, then the parent's merge — equals the
sequential run of the same writers: same store, same split table. -/
theorem C09_multiwriter_eq_sequential (H : SList → Nat) (fuel : Nat) (ds : DS) (u : Nat → Nat)
    (hinj : ∀ i j, u i = u j → i = j) (ws : List (List Eff))
    (hw : ∀ i, ∀ e ∈ ws.getD i [], e.writer = i ∧ ∃ s, e.dir = [s, u i]) (il : List Eff)
    (hil : IsInterleaving ws il) (dirs : List Dir) (ss : List Nat) :
    mergeSplits H fuel dirs ss { ds with fs := applyEffs ds.fs il } =
      mergeSplits H fuel dirs ss { ds with fs := applyEffs ds.fs ws.flatten } := by
  rw [C09_interleaving_eq_sequential ds.fs ws (C09_writer_footprint u hinj ws hw) il hil]

/-- no two workers ever write to the same list: an effect at directory `x` can only come from the
one writer that owns `x` -/
theorem C09_no_shared_file (ws : List (List Eff)) (hown : OwnDirs ws) (i j : Nat) (e f : Eff)
    (he : e ∈ ws.getD i []) (hf : f ∈ ws.getD j []) (hd : e.dir = f.dir) : i = j := by
  rcases Nat.decEq i j with hne | heq
  · exact absurd hd (hown.2 i j hne e he f hf)
  · exact heq

/-- the session a multi-writer call amounts to: writer `i`'s shards for split `s` go to its own directory `[s, u i]` -/
def multiSession (u : Nat → Nat) (writers : List (List (Nat × List Shard))) : Session :=
  (List.range writers.length).flatMap (fun i => (writers.getD i []).map (fun p => ([p.1, u i], p.2)))

/-- **The result of the call is exact and holds exactly the writers' shards**: for every dataset reached by completed
sessions (`Good`, `Linked`), after a multi-writer call with any number of writers (writers that write nothing included, several
splits per writer) the metadata tree is exact again and every split enumerates what it enumerated before plus precisely the
shards the writers closed for it — whatever the relative speeds of the worker processes (`C09_multiwriter_eq_sequential`). -/
theorem C09_multiwriter_exact_and_adds_exactly (H : SList → Nat) (B fuel : Nat) (hfuel : B < fuel + 1) (hB : 2 ≤ B) (ds : DS)
    (u : Nat → Nat) (writers : List (List (Nat × List Shard))) (hg : Good H B ds) (hl : Linked ds.fs) :
    Good H B (session H fuel ds (multiSession u writers)) ∧ Linked (session H fuel ds (multiSession u writers)).fs ∧
    ∀ s sh, sh ∈ shardsOf fuel (session H fuel ds (multiSession u writers)).fs [s] ↔
      sh ∈ shardsOf fuel ds.fs [s] ∨ ∃ w ∈ multiSession u writers, w.1.headD 0 = s ∧ sh ∈ w.2 := by
  have hse : ∀ w ∈ multiSession u writers, w.1 ≠ [] ∧ w.1.length ≤ B := by
    intro w hw
    simp only [multiSession, List.mem_flatMap, List.mem_map] at hw
    obtain ⟨i, _, p, _, rfl⟩ := hw
    simp; omega
  exact ⟨(session_good H B fuel hfuel (by omega) ds _ hse hg).1, session_linked H B fuel hfuel (by omega) ds _ hse hg hl,
    fun s sh => session_adds_exactly H B fuel hfuel (by omega) ds _ hse hg hl s sh⟩

/-- Non-vacuity: two writers, one interleaving. -/
def e00 : Eff := ⟨0, [0, 100], ⟨1, 2, [], 0, 0⟩⟩
def e01 : Eff := ⟨0, [0, 100], ⟨2, 1, [], 0, 0⟩⟩
def e10 : Eff := ⟨1, [0, 101], ⟨3, 2, [], 0, 0⟩⟩
example : IsInterleaving [[e00, e01], [e10]] [e00, e10, e01] := by
  refine ⟨by decide, ?_⟩
  intro i
  match i with
  | 0 => decide
  | 1 => decide
  | (n+2) => simp [List.getD, e00, e01, e10]

end Sedpack.Tree
