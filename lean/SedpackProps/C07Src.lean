import SedpackProps.SrcGen
/-!
# C07 — no iteration path swallows an exception, in the current source

M-POOL forwards a failure of the mapped function to the consumer (`C07_pool_fault_raises`); the other Python pipelines are plain
generator compositions in which an exception of a shard reader propagates to whoever iterates.  Re-checked against the source text
extracted on this run: none of the iteration interfaces contains an exception handler at all; in the lazy pool the only handler on
the consumer's side turns an impossible `StopIteration` into an error, and the worker's handler *forwards* what it caught.
-/
namespace Sedpack.Src

/-- the shard-list walk, the selection, the path stream and the five interfaces contain no `try` at all -/
theorem C07_src_iteration_has_no_handlers :
    (shardInfoIterator.contains "try" || shardInfoWalk.contains "try" || shardPathsDataset.contains "try" || asNumpyCommon.contains "try"
      || asNumpyIterator.contains "try" || asNumpyIteratorConcurrent.contains "try" || asNumpyIteratorAsync.contains "try"
      || asNumpyIteratorRust.contains "try" || asTfdataset.contains "try") = false := by decide +kernel
/-- `imap_unordered`: one handler, and it raises; a forwarded failure is re-raised after the reset -/
theorem C07_src_consumer_reraises :
    (occurrences imapUnordered "except" == 1
      && (match first imapUnordered "except" with | some i => imapUnordered[i + 1]? == some "raise" | none => false)
      && noneBefore imapUnordered "raise" "finish_and_reset") = true := by decide +kernel
/-- `Collector.run`: what the mapped function raises is wrapped (`RaisedException`) and put on the results queue -/
theorem C07_src_worker_forwards :
    (allBefore collectorRun "func" "RaisedException"
      && (match last collectorRun "RaisedException", last collectorRun "put" with | some i, some j => decide (i < j) | _, _ => false)) = true := by
  decide +kernel

end Sedpack.Src
