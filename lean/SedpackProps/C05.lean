import SedpackProofs.TreeCheck
/-!
# C05 — Integrity check accepts every committed dataset and detects every modification

`check` (SedpackModel/Tree.lean) follows the code's two passes.  *Completeness*: on an exact tree
(which C04 establishes after every history) whose shard entries carry the digests of the files
they name (recorded when a shard is closed, C16), the check passes.  *Detection*: hash functions
are not injective on unbounded inputs, so the premise is about the specific pairs involved — every
altered file's new content has a digest different from the recorded one (any single configured
algorithm suffices); a removed file raises.  Under that premise altering **any** reachable list
file or shard file — at any byte, by truncation, extension, deletion, replacement by a sibling or
by an older version — makes the check fail, for every tree shape.
-/
namespace Sedpack.Tree

/-- the check passes on every exact tree with correctly recorded shard digests -/
theorem C05_check_complete (H : SList → Nat) (Hf : Nat → Nat) (B fuel : Nat) (fs : FS) (files : Files) (infos : List Kid)
    (hd : DepthOK fs B) (hinf : ∀ k ∈ infos, Exact H fs k ∧ ShardsOK Hf fs files k ∧ k.dir.length ≤ B ∧ B < fuel + k.dir.length) :
    check H Hf fuel fs files infos = true := by
  simp only [check, Bool.and_eq_true, List.all_eq_true]
  exact ⟨fun k hk => checkLists_complete H B fuel fs k (hinf k hk).1 hd (hinf k hk).2.2.1 (hinf k hk).2.2.2,
         fun k hk => checkShards_complete H Hf B fuel fs files k (hinf k hk).1 (hinf k hk).2.1 hd (hinf k hk).2.2.1 (hinf k hk).2.2.2⟩

/-- … in particular after every history of completed sessions (C04_history_exact gives `Good`) -/
theorem C05_check_after_history (H : SList → Nat) (Hf : Nat → Nat) (B fuel : Nat) (hfuel : B < fuel + 1) (hB : 1 ≤ B)
    (hist : List Session) (hh : ∀ se ∈ hist, ∀ w ∈ se, w.1 ≠ [] ∧ w.1.length ≤ B) (files : Files) (ss : List Nat) :
    let ds := hist.foldl (session H fuel) { fs := fun _ => none, splits := fun _ => none }
    (∀ s ∈ ss, ∀ k, ds.splits s = some k → ShardsOK Hf ds.fs files k) →
    check H Hf fuel ds.fs files (ss.filterMap ds.splits) = true := by
  intro ds hok
  have hg : Good H B ds := by
    have key : ∀ (hist : List Session) (ds0 : DS), (∀ se ∈ hist, ∀ w ∈ se, w.1 ≠ [] ∧ w.1.length ≤ B) → Good H B ds0 →
        Good H B (hist.foldl (session H fuel) ds0) := by
      intro hist
      induction hist with
      | nil => intro ds0 _ h; exact h
      | cons se rest ih =>
        intro ds0 hh hg
        simp only [List.foldl_cons]
        exact ih _ (fun se' h' => hh se' (List.mem_cons_of_mem _ h'))
          (session_good H B fuel hfuel hB ds0 se (hh se List.mem_cons_self) hg).1
    exact key hist _ hh ⟨fun d l h => by simp at h, fun d l h => by simp at h, fun s k h => by simp at h⟩
  apply C05_check_complete H Hf B fuel ds.fs files _ hg.depth
  intro k hk
  simp only [List.mem_filterMap] at hk
  obtain ⟨s, hs, hsk⟩ := hk
  obtain ⟨hdir, hex⟩ := hg.exact s k hsk
  exact ⟨hex, hok s hs k hsk, by rw [hdir]; simpa using hB, by rw [hdir]; simpa using hfuel⟩

/-- **One merge re-establishes exactness of the whole split, whatever was rewritten below it beforehand.**  The store only has
to be well formed (every list self-summing): lists below `[s]` may have been extended by fillers whose infos were held back
(`auto_update_dataset=False`), by crashed sessions, by other writers — the recorded digests and totals of *every* list reachable
from the split are recomputed, because the merge moves all already-known children into the recursion.  Hence `check()` passes
after every commit that touches the split (`C05_check_complete`), not only after commits that name every rewritten directory. -/
theorem C05_merge_restores_exactness (H : SList → Nat) (B fuel : Nat) (fs : FS) (s : Nat) (ups : List Kid) (hB : 1 ≤ B) (hfuel : B < fuel + 1)
    (hwf : WF fs) (hd : DepthOK fs B) (hups : ∀ u ∈ ups, [s] <+: u.dir ∧ u.dir.length ≤ B) :
    (merge H fuel fs [s] ups).2.dir = [s] ∧ Exact H (merge H fuel fs [s] ups).1 (merge H fuel fs [s] ups).2 := by
  have hp := merge_spec H B fuel fs [s] ups (by simpa using hfuel) ⟨hwf, hd, hups, by simpa using hB⟩
  exact ⟨hp.dir, hp.exact⟩

/-- **Any altered / removed / replaced shard-list file is detected** -/
theorem C05_detects_list_file (H : SList → Nat) (Hf : Nat → Nat) (fuel : Nat) (fs fs' : FS) (files : Files) (infos : List Kid)
    (k : Kid) (hk : k ∈ infos) (hex : Exact H fs k) (htame : ListsTame H fs fs' k.dir)
    (hmod : ∃ x, Reaches fs k.dir x ∧ fs' x ≠ fs x) :
    check H Hf fuel fs' files infos = false := by
  simp only [check, Bool.and_eq_false_iff]
  left
  rw [List.all_eq_false]
  exact ⟨k, hk, by simp [checkLists_detects H fuel fs fs' k hex htame hmod]⟩

/-- **Any altered / removed / replaced shard file is detected** (list files as committed) -/
theorem C05_detects_shard_file (H : SList → Nat) (Hf : Nat → Nat) (fuel : Nat) (fs : FS) (files files' : Files) (infos : List Kid)
    (k : Kid) (hk : k ∈ infos) (hex : Exact H fs k) (hok : ShardsOK Hf fs files k)
    (htame : ∀ x l, Reaches fs k.dir x → fs x = some l → ∀ s ∈ l.files, ShardTame Hf files files' x s)
    (hmod : ∃ x l s, Reaches fs k.dir x ∧ fs x = some l ∧ s ∈ l.files ∧ files' x s.file ≠ files x s.file) :
    check H Hf fuel fs files' infos = false := by
  simp only [check, Bool.and_eq_false_iff]
  right
  rw [List.all_eq_false]
  exact ⟨k, hk, by simp [checkShards_detects H Hf fuel fs files files' k hex hok htame hmod]⟩

/-- the description file itself: the supplied expected checksums are compared first -/
theorem C05_root_checksum (real expected : List Nat) (h : real ≠ expected) :
    (if expected ≠ [] ∧ real ≠ expected then false else true) = false ∨ expected = [] := by
  by_cases he : expected = []
  · exact Or.inr he
  · left; simp [he, h]

/-- Non-vacuity: an exact two-level tree passes; flipping the child list's total is detected;
swapping a shard file for its sibling's content is detected. -/
def Hx (l : SList) : Nat := 1000 + l.n + 7 * l.files.length + (l.kids.map (·.hash)).sum
def fsx : FS := (session Hx 4 { fs := fun _ => none, splits := fun _ => none }
  [([0, 1], [⟨10, 3, [], 0, 77⟩, ⟨11, 2, [], 0, 78⟩])]).fs
def kx : Kid := ((session Hx 4 { fs := fun _ => none, splits := fun _ => none }
  [([0, 1], [⟨10, 3, [], 0, 77⟩, ⟨11, 2, [], 0, 78⟩])]).splits 0).getD ⟨[], 0, 0, 0⟩
def filesx : Files := fun d f => if d = [0, 1] then (if f = 10 then some 77 else if f = 11 then some 78 else none) else none
example : check Hx id 4 fsx filesx [kx] = true := by decide
example : check Hx id 4 (fsx.set [0, 1] { n := 4, files := [⟨10, 3, [], 0, 77⟩, ⟨11, 2, [], 0, 78⟩] }) filesx [kx] = false := by decide
example : check Hx id 4 fsx (fun d f => if f = 10 then filesx d 11 else filesx d f) [kx] = false := by decide

end Sedpack.Tree
