import SedpackProps.C10System
import SedpackProps.C11
/-!
# C11, end to end: every shard a reader can reach is labelled with the metadata of the examples stored in it

`C11.lean` proves the labelling for the shards a filler closes (M-FILL); this file carries it through M-TREE: after any
history of filler sessions every shard entry enumerated for any split is the record of a closed shard all of whose examples
that were written under a non-empty metadata value were written under exactly the recorded one.
-/
namespace Sedpack.System
open Sedpack

/-- where an enumerated shard entry comes from: it was enumerable before, or it is the record the filler made of one of
the shards M-FILL closed for some split in this session -/
theorem C11_enumerated_shard_origin (H : Tree.SList → Nat) (B fuel eps : Nat) (hfuel : B < fuel + 1) (hB : 1 ≤ B) (heps : 1 ≤ eps)
    (ds : Tree.DS) (hg : Tree.Good H B ds) (hl : Tree.Linked ds.fs) (ops : List Fill.Op) (name : Nat → Nat → Nat) (splits : List Nat)
    (s : Nat) (sh : Tree.Shard)
    (hsh : sh ∈ Tree.shardsOf fuel (Tree.session H fuel ds (fillerSession eps ops name splits)).fs [s]) :
    sh ∈ Tree.shardsOf fuel ds.fs [s] ∨
      ∃ a i cl c, Fill.listed eps ops a = some cl ∧ c ∈ cl ∧ sh = toShard (name a i) c := by
  have hse : ∀ w ∈ fillerSession eps ops name splits, w.1 ≠ [] ∧ w.1.length ≤ B := by
    intro w hw
    simp only [fillerSession, List.mem_filterMap] at hw
    obtain ⟨a, _, haw⟩ := hw
    cases hsf : shardsFor eps ops name a with
    | none => simp [hsf] at haw
    | some sh => simp [hsf] at haw; rw [← haw]; simp; omega
  rcases (Tree.session_adds_exactly H B fuel hfuel hB ds _ hse hg hl s sh).mp hsh with h | ⟨w, hw, _, hshw⟩
  · exact Or.inl h
  · right
    simp only [fillerSession, List.mem_filterMap] at hw
    obtain ⟨a, _, haw⟩ := hw
    cases hsf : shardsFor eps ops name a with
    | none => simp [hsf] at haw
    | some shs =>
      simp [hsf] at haw
      rw [← haw] at hshw
      simp only [] at hshw
      unfold shardsFor at hsf
      obtain ⟨cl, hl1, _, _, _⟩ := Fill.listed_spec eps heps ops a
      rw [hl1] at hsf
      cases cl with
      | nil => simp at hsf
      | cons c cs =>
        simp only [Option.some.injEq] at hsf
        rw [← hsf] at hshw
        obtain ⟨j, hj, hjeq⟩ := List.mem_iff_getElem.mp hshw
        simp only [List.getElem_zipWith] at hjeq
        exact ⟨a, _, c :: cs, _, hl1, List.getElem_mem _, hjeq.symm⟩

/-- the record `sh` labels its examples correctly: it is the record of a closed shard `c`, and every example of `c` written
under a non-empty metadata value was written under `sh.md` -/
def LabelOK (sh : Tree.Shard) : Prop :=
  ∃ c : Fill.Closed, sh.md = c.md ∧ sh.exs = c.exs.map (·.1) ∧ sh.n = c.n ∧ ∀ q ∈ c.exs, q.2 ≠ 0 → sh.md = q.2

theorem C11_enumerated_shards_labelled (H : Tree.SList → Nat) (B fuel eps : Nat) (hfuel : B < fuel + 1) (hB : 1 ≤ B) (heps : 1 ≤ eps)
    (ds : Tree.DS) (hg : Tree.Good H B ds) (hl : Tree.Linked ds.fs) (ops : List Fill.Op) (name : Nat → Nat → Nat) (splits : List Nat)
    (s : Nat) (hold : ∀ sh ∈ Tree.shardsOf fuel ds.fs [s], LabelOK sh) :
    ∀ sh ∈ Tree.shardsOf fuel (Tree.session H fuel ds (fillerSession eps ops name splits)).fs [s], LabelOK sh := by
  intro sh hsh
  rcases C11_enumerated_shard_origin H B fuel eps hfuel hB heps ds hg hl ops name splits s sh hsh with h | ⟨a, i, cl, c, hcl, hc, rfl⟩
  · exact hold sh h
  · obtain ⟨cl2, hcl2, hlab⟩ := Fill.C11_md_labels eps heps ops a
    rw [hcl] at hcl2; cases hcl2
    exact ⟨c, rfl, rfl, rfl, fun q hq h0 => hlab c hc q hq h0⟩

/-- **Every history of filler sessions, from the empty dataset.** -/
theorem C11_history_labelled (H : Tree.SList → Nat) (B fuel eps : Nat) (hfuel : B < fuel + 1) (hB : 1 ≤ B) (heps : 1 ≤ eps) (s : Nat) :
    ∀ (hist : List Run) (ds : Tree.DS), Tree.Good H B ds → Tree.Linked ds.fs →
      (∀ sh ∈ Tree.shardsOf fuel ds.fs [s], LabelOK sh) →
      ∀ sh ∈ Tree.shardsOf fuel (hist.foldl (fun d r => Tree.session H fuel d (fillerSession eps r.ops r.name r.splits)) ds).fs [s],
        LabelOK sh := by
  intro hist
  induction hist with
  | nil => intro ds _ _ h; simpa using h
  | cons r rest ih =>
    intro ds hg hl hold
    simp only [List.foldl_cons]
    have hse : ∀ w ∈ fillerSession eps r.ops r.name r.splits, w.1 ≠ [] ∧ w.1.length ≤ B := by
      intro w hw
      simp only [fillerSession, List.mem_filterMap] at hw
      obtain ⟨a, _, haw⟩ := hw
      cases hsf : shardsFor eps r.ops r.name a with
      | none => simp [hsf] at haw
      | some sh => simp [hsf] at haw; rw [← haw]; simp; omega
    exact ih _ (Tree.session_good H B fuel hfuel hB ds _ hse hg).1 (Tree.session_linked H B fuel hfuel hB ds _ hse hg hl)
      (C11_enumerated_shards_labelled H B fuel eps hfuel hB heps ds hg hl r.ops r.name r.splits s hold)

/-- Non-vacuity: metadata changes across a size boundary, two splits. -/
example : LabelOK (toShard 5 { md := 2, n := 2, exs := [(10, 2), (11, 0)], why := .exit }) :=
  ⟨_, rfl, rfl, rfl, by decide⟩

end Sedpack.System
