import SedpackProofs.Select
import SedpackProps.C12Gen
/-!
# C12 — Shard selection options mean the same thing in every iteration interface

`select` (SedpackModel/Select.lean) is the single selection routine.  Quantifiers: every shard
list, every predicate, every `k`, every per-metadata limit.  `C12_every_interface_forwards` is a
theorem over a table **generated from the source on every run** (`C12Gen.lean`): every interface
that accepts an option passes it to the selection that feeds its reader, so — with C02 — the
examples yielded are exactly those of the shards `select` returns, identically across interfaces.
-/
namespace Sedpack.Sel

theorem select_ok (infos : List ShardI) (f : Option (ShardI → Bool)) (k : Option Int) (n : Option Nat) (out : List ShardI)
    (h : select infos f k n = .ok out) :
    stageFilter infos f ≠ [] ∧ out = stageLimit (stageFirstK (stageFilter infos f) k) n := by
  unfold select at h
  by_cases he : stageFilter infos f = []
  · simp [he] at h
  · simp only [he, if_false, Except.ok.injEq] at h
    exact ⟨he, h.symm⟩

/-- the selection is an order-preserving sub-list of the enumeration -/
theorem C12_select_sublist (infos : List ShardI) (f : Option (ShardI → Bool)) (k : Option Int) (n : Option Nat)
    (out : List ShardI) (h : select infos f k n = .ok out) : out.Sublist infos := by
  obtain ⟨_, rfl⟩ := select_ok infos f k n out h
  have h1 : (stageFilter infos f).Sublist infos := by
    cases f <;> simp [stageFilter, List.filter_sublist]
  have h2 : ∀ l : List ShardI, (stageFirstK l k).Sublist l := by
    intro l; cases k with
    | none => exact List.Sublist.refl _
    | some k => simp only [stageFirstK]; split
                · exact List.Sublist.refl _
                · exact (pySliceTo_prefix l k).sublist
  have h3 : ∀ l : List ShardI, (stageLimit l n).Sublist l := by
    intro l; cases n with
    | none => exact List.Sublist.refl _
    | some n => simp only [stageLimit]; split
                · exact List.Sublist.refl _
                · exact limitLoop_sublist n l _
  exact ((h3 _).trans (h2 _)).trans h1

/-- restricting to the first `k ≥ 1` shards: exactly the first `k` (all of them if fewer exist) -/
theorem C12_select_firstk (infos : List ShardI) (k : Nat) (hk : 1 ≤ k) (hne : infos ≠ []) :
    select infos none (some (k : Int)) none = .ok (infos.take k) := by
  have hk0 : ¬ ((k : Int) = 0) := by omega
  have hge : (k : Int) ≥ 0 := by omega
  have hk1 : k ≠ 0 := by omega
  simp [select, stageFilter, stageFirstK, stageLimit, hne, hk1, pySliceTo, hge]

/-- a predicate keeps exactly the shards it accepts, in order -/
theorem C12_select_filter (infos : List ShardI) (p : ShardI → Bool) (hne : infos.filter p ≠ []) :
    select infos (some p) none none = .ok (infos.filter p) := by
  simp [select, stageFilter, stageFirstK, stageLimit, hne]

/-- at most `n ≥ 1` shards per distinct metadata value: for every value exactly the first
`min n count` shards of that value, in order -/
theorem C12_select_limit (infos : List ShardI) (n : Nat) (hn : 1 ≤ n) (out : List ShardI)
    (h : select infos none none (some n) = .ok out) (m : Nat) :
    out.filter (fun s => s.md = m) = (infos.filter (fun s => s.md = m)).take n := by
  obtain ⟨_, rfl⟩ := select_ok infos none none (some n) out h
  have hn0 : ¬ n = 0 := by omega
  simp only [stageFilter, stageFirstK, stageLimit, hn0, if_false]
  simpa using limitLoop_filter n m infos (fun _ => 0)

/-- a selection that matches no shard is an error, never an empty pass -/
theorem C12_select_empty_is_error (infos : List ShardI) (f : Option (ShardI → Bool)) (k : Option Int) (n : Option Nat)
    (h : stageFilter infos f = []) : select infos f k n = .error .emptySelection := by
  simp [select, h]

/-- … and a successful selection is never empty (for `k ≥ 1`, `n ≥ 1`) -/
theorem C12_select_nonempty (infos : List ShardI) (f : Option (ShardI → Bool)) (k n : Nat) (hk : 1 ≤ k) (hn : 1 ≤ n)
    (out : List ShardI) (h : select infos f (some (k : Int)) (some n) = .ok out) : out ≠ [] := by
  obtain ⟨hne, rfl⟩ := select_ok infos f _ _ out h
  have hk0 : ¬ ((k : Int) = 0) := by omega
  have hn0 : ¬ n = 0 := by omega
  have hge : (k : Int) ≥ 0 := by omega
  simp only [stageFirstK, stageLimit, hk0, hn0, if_false, pySliceTo, hge, if_true]
  generalize stageFilter infos f = l1 at hne
  cases l1 with
  | nil => exact absurd rfl hne
  | cons s rest =>
    have : (List.take (k : Int).toNat (s :: rest)) = s :: List.take ((k : Int).toNat - 1) rest := by
      have : (k : Int).toNat = ((k : Int).toNat - 1) + 1 := by omega
      rw [this, List.take_succ_cons]; simp
    rw [this]
    simp only [limitLoop]
    have : (0 : Nat) + 1 ≤ n := by omega
    simp [this]

/-- **Generated table**: every interface that accepts a selection option passes it on to the
selection feeding its reader (re-extracted from the source and re-checked on every run). -/
theorem C12_every_interface_forwards :
    ∀ row ∈ Gen.wiring, row.2.2.2.1 = true → row.2.2.2.2 = true := by decide

/-- Non-vacuity: interleaved metadata groups `a a b a b b a` with limit 1 selects shards 0 and 2 -/
example : select [⟨0, 1⟩, ⟨1, 1⟩, ⟨2, 2⟩, ⟨3, 1⟩, ⟨4, 2⟩, ⟨5, 2⟩, ⟨6, 1⟩] none none (some 1) = .ok [⟨0, 1⟩, ⟨2, 2⟩] := by rfl

theorem limitLoop_all (n : Nat) : ∀ (l : List ShardI) (counts : Nat → Nat), (∀ m, counts m + l.length ≤ n) → limitLoop n l counts = l := by
  intro l
  induction l with
  | nil => intro _ _; rfl
  | cons s rest ih =>
    intro counts h
    have hs := h s.md
    simp only [List.length_cons] at hs
    simp only [limitLoop]
    have hle : counts s.md + 1 ≤ n := by omega
    simp only [hle, if_true]
    congr 1
    apply ih
    intro m
    have hm := h m
    simp only [List.length_cons] at hm
    by_cases hms : m = s.md
    · simp [hms]; omega
    · simp [hms]; omega

/-- **Options that select nothing away do nothing**: with a predicate, a shard count and a per-metadata limit that are both at
least the number of shards the predicate keeps, the selection is exactly the predicate's — the predicate keeps deciding. -/
theorem C12_nonbinding_options (infos : List ShardI) (p : ShardI → Bool) (k n : Nat) (hne : infos.filter p ≠ [])
    (hk : (infos.filter p).length ≤ k) (hn : (infos.filter p).length ≤ n) :
    select infos (some p) (some (k : Int)) (some n) = .ok (infos.filter p) := by
  have hk0 : k ≠ 0 := by
    intro h; subst h
    have : (infos.filter p).length = 0 := by omega
    exact hne (List.length_eq_zero_iff.mp this)
  have hn0 : n ≠ 0 := by
    intro h; subst h
    have : (infos.filter p).length = 0 := by omega
    exact hne (List.length_eq_zero_iff.mp this)
  simp only [select, stageFilter, hne, if_false, stageFirstK, stageLimit, hn0]
  have hki : ((k : Int) = 0) = False := by simp; omega
  simp only [hki, if_false, pySliceTo]
  have : (k : Int) ≥ 0 := by omega
  simp only [this, if_true, Int.toNat_natCast, List.take_of_length_le hk]
  rw [limitLoop_all n _ _ (by intro m; simpa using hn)]

/-- with every combination of options, whatever is selected satisfies the predicate -/
theorem C12_selected_satisfy_predicate (infos : List ShardI) (p : ShardI → Bool) (k : Option Int) (n : Option Nat) (out : List ShardI)
    (h : select infos (some p) k n = .ok out) : ∀ s ∈ out, p s = true := by
  obtain ⟨_, rfl⟩ := select_ok infos (some p) k n out h
  have h2 : ∀ l : List ShardI, (stageFirstK l k).Sublist l := by
    intro l; cases k with
    | none => exact List.Sublist.refl _
    | some k => simp only [stageFirstK]; split
                · exact List.Sublist.refl _
                · exact (pySliceTo_prefix l k).sublist
  have h3 : ∀ l : List ShardI, (stageLimit l n).Sublist l := by
    intro l; cases n with
    | none => exact List.Sublist.refl _
    | some n => simp only [stageLimit]; split
                · exact List.Sublist.refl _
                · exact limitLoop_sublist n l _
  intro s hs
  have := ((h3 _).trans (h2 _)).subset hs
  simp only [stageFilter, List.mem_filter] at this
  exact this.2


end Sedpack.Sel
