import SedpackProps.SrcGen
/-!
# C13 — leaving the pool's context always resets it, in the current source

M-POOL's `cAbandon` / `cFinish` labels stand for `finish_and_reset`, which sends one stop sentinel per worker; the theorems of
`C13.lean` (every worker terminates after the context is left, the pool can be reused) rest on `__exit__` reaching it on *every*
way out of the `with` block.  Re-checked against the source text extracted on this run.
-/
namespace Sedpack.Src

/-- `LazyPool.__exit__`: the reset is the very first thing that happens — nothing is tested and nothing returns before it,
whatever exception (if any) the block was left by -/
theorem C13_src_exit_resets_first : poolExit.head? = some "finish_and_reset" := by decide +kernel
/-- … and it happens exactly once, outside any branch -/
theorem C13_src_exit_resets_unconditionally :
    (occurrences poolExit "finish_and_reset" == 1 && noneBefore poolExit "if" "finish_and_reset"
      && noneBefore poolExit "return" "finish_and_reset" && noneBefore poolExit "raise" "finish_and_reset") = true := by decide +kernel
/-- `finish_and_reset`: the stop sentinels are put on the queue before the queue is forgotten, and the bookkeeping is cleared first -/
theorem C13_src_reset_sends_then_forgets :
    (allBefore poolReset "StopSentinel" "set:_to_process" && allBefore poolReset "put" "set:_to_process"
      && allBefore poolReset "set:_active_threads" "put") = true := by decide +kernel
/-- the only early return of `finish_and_reset` is the one guarded by "no queue exists" (`is None`) -/
theorem C13_src_reset_single_guard :
    (occurrences poolReset "return" == 1 && occurrences poolReset "if" == 1 && allBefore poolReset "cmp:Is" "return") = true := by decide +kernel

/-- `imap_unordered`: the worker threads are started before any input is queued; in the main loop the refill `put` comes before the
`yield` (M-POOL: cGet, cPut, then the result is handed out); a forwarded failure resets the pool *before* it is re-raised; the
normal end resets too -/
theorem C13_src_imap_shape :
    (allBefore imapUnordered "start" "put" && allBefore imapUnordered "put" "yield" && allBefore imapUnordered "get" "yield"
      && noneBefore imapUnordered "raise" "finish_and_reset" && occurrences imapUnordered "finish_and_reset" == 2
      && (last imapUnordered "finish_and_reset").map (· + 1) == some imapUnordered.length) = true := by decide +kernel
/-- `Collector.run`: a stop sentinel is forwarded (`put`) before the thread returns; whatever the mapped function does — return or
raise — something is `put` afterwards (the failure wrapped in `RaisedException`) -/
theorem C13_src_collector_shape :
    (allBefore collectorRun "get" "func" && noneBefore collectorRun "return" "put" && allBefore collectorRun "func" "RaisedException"
      && (match last collectorRun "RaisedException", last collectorRun "put" with | some i, some j => decide (i < j) | _, _ => false)
      && occurrences collectorRun "return" == 1) = true := by decide +kernel

end Sedpack.Src
