import SedpackProps.SrcGen
/-!
# C16 — every requested algorithm gets a hash object of its own, in the current source

M-HASH feeds each requested name an independent state (`C16_each_is_whole_file_digest` holds for *lists* of names, repetitions
included).  That is the code's behaviour only if `_get_hash_function` constructs a fresh object on every call and keeps nothing
between calls.  Re-checked against the source text extracted on this run.
-/
namespace Sedpack.Src

/-- the event list has the form (constructor, `return`)*: every branch returns an object constructed right there -/
def freshPairs (ctors : List String) : List String → Bool
  | [] => true
  | [_] => false
  | c :: r :: rest => ctors.contains c && r == "return" && freshPairs ctors rest

theorem C16_src_fresh_object_per_call :
    freshPairs ["xxh32", "xxh64", "xxh128", "new"] getHashFunction = true := by decide +kernel
/-- `_get_hash_function` stores nothing and declares no global: no state survives a call -/
theorem C16_src_no_state_between_calls :
    (hasStore getHashFunction || getHashFunction.contains "global") = false := by decide +kernel
/-- `hash_checksums`: the objects are created before the file is opened, fed before they are asked for their digest, and the
function stores nothing either -/
theorem C16_src_create_feed_digest :
    (allBefore hashChecksums "_get_hash_function" "open" && allBefore hashChecksums "open" "update"
      && allBefore hashChecksums "update" "hexdigest" && !hasStore hashChecksums) = true := by decide +kernel

end Sedpack.Src
