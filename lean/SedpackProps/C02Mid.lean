import SedpackProps.C02
/-!
# C02 in the middle of a pass (early stop, abandoned iterators)

`C02_shuffle_buffer_perm` / `C02_round_robin_perm` speak about complete runs.  A consumer may stop anywhere
(`take(k)`, a `break`, an exception downstream).  The two theorems below are the conservation law at *every* reachable
state of the monitors, stated as multiset equalities: everything pulled from the source so far is, as a multiset,
exactly what has been yielded plus what is still held (buffer and the element in hand; the unread rests of the open
inner iterators).  Nothing is dropped, invented or duplicated at any moment, so what an early-stopping consumer has
received is a sub-multiset of the split and the remainder is still where the model says it is.
-/
namespace Sedpack.Iter

/-- **Shuffle buffer, every moment**: pulled = yielded + buffered + in hand, as multisets. -/
theorem C02_shuffle_buffer_conserves (b : Nat) (s : SB) (h : SBReach b s) :
    s.pulled.Perm (s.out ++ s.buf ++ pendL s) := by
  rw [List.perm_iff_count]
  intro a
  have := (sb_inv_reach b s h).1.cons a
  simp only [List.count_append]
  omega

/-- **Round robin, every moment**: the elements of all opened shards = yielded + unread rests of the open ones. -/
theorem C02_round_robin_conserves (b : Nat) (s : RR) (h : RRReach b s) :
    s.pulledAll.Perm (s.out ++ restOf s.open_) := by
  rw [List.perm_iff_count]
  intro a
  have := (rr_inv_reach b s h).1.cons a
  simp only [List.count_append]
  omega

/-- hence an early-stopping consumer has received everything pulled from the source except a remainder that is still in
the buffer — at most `b + 1` elements (the read-ahead of C14), none of them lost -/
theorem C02_shuffle_buffer_partial (b : Nat) (hb : 0 < b) (s : SB) (h : SBReach b s) :
    ∃ rest, s.pulled.Perm (s.out ++ rest) ∧ rest.length ≤ b + 1 := by
  refine ⟨s.buf ++ pendL s, ?_, ?_⟩
  · rw [← List.append_assoc]; exact C02_shuffle_buffer_conserves b s h
  · obtain ⟨hi, hbb⟩ := sb_inv_reach b s h
    have h1 := hi.bufle (by omega)
    have h2 : (pendL s).length ≤ 1 := by
      unfold pendL; cases s.pend <;> simp
    rw [List.length_append]; omega

end Sedpack.Iter
