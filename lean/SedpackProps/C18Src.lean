import SedpackProps.SrcGen
import SedpackModel.Filler
/-!
# C18 — the statement order of the source, as extracted on this run

`SrcGen.lean` is regenerated from /repo's working tree by `harness/extract_order.py` on every run.  The all-or-nothing
theorems of `C18.lean` are proved for the model configuration `attachFirst = false` (the write happens before the metadata
is attached and before any counter moves — the order restored by the D4 fix; `C18_first_write_poison_pinned` is the witness
that the other order breaks the property).  The theorems below re-check, against the current source text, that this *is*
the order of the code.
-/
namespace Sedpack.Src

/-- `_DatasetFillerContext.write_example`: the (possibly rejected) `Shard.write` comes before the metadata is attached … -/
theorem C18_src_write_before_attach : allBefore writeExample "write" "set:custom_metadata" = true := by decide +kernel
/-- … and before the progress counter moves -/
theorem C18_src_write_before_progress_count : allBefore writeExample "write" "aug:written_examples" = true := by decide +kernel
/-- a roll-over (closing the full shard) is decided before the write, never after a rejected one -/
theorem C18_src_rollover_before_write : allBefore writeExample "close_shard" "write" = true := by decide +kernel
/-- `Shard.write`: the recorded `number_of_examples` moves only after the writer accepted the example -/
theorem C18_src_shard_count_after_write : allBefore shardWrite "write" "aug:number_of_examples" = true := by decide +kernel
/-- `ShardWriterBase.write`: every validation failure is raised before the format-specific `_write` touches the buffer -/
theorem C18_src_validate_before_buffer : allBefore writerBaseWrite "raise" "_write" = true := by decide +kernel

/-- the model configuration the source order corresponds to -/
def attachFirstSrc : Bool := !(allBefore writeExample "write" "set:custom_metadata")

/-- **The configuration `C18_reject_no_trace` is proved for is the configuration of the current source.** -/
theorem C18_src_model_configuration (eps : Nat) :
    ({ eps := eps, attachFirst := attachFirstSrc } : Fill.Cfg).attachFirst = false := by
  show attachFirstSrc = false
  decide +kernel

end Sedpack.Src
