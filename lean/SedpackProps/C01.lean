import SedpackProofs.Codec
import SedpackProps.C01Gen
/-!
# C01 — round-trip fidelity: every value read equals the value written

What is sedpack's own in the write→read path (byte-order decision, C-order flatten / reshape,
little-endian element encoding, integer widening, which codec is paired with which) is M-CODEC and
the generated tables; everything below is proved for every element width, shape, rank, memory
layout, byte-order tag, host and bit pattern.  The containers and codecs themselves (FlatBuffers,
npz, TFRecord, gzip, …) are external: their laws are explicit hypotheses of `C01_pipeline`, and the
end-to-end correspondence check exercises them on every run.
-/
namespace Sedpack.Codec
open Gen

/-- **Little-endian element round trip**: any bit pattern of a `k`-byte element survives. -/
theorem C01_le_roundtrip (k v : Nat) (h : v < 256 ^ k) :
    decodeLE (encodeLE k v) = v ∧ (encodeLE k v).length = k ∧ ∀ b ∈ encodeLE k v, b < 256 :=
  ⟨decode_encode k v h, encodeLE_length k v, encodeLE_lt k v⟩

/-- distinct bit patterns are stored as distinct bytes (nothing is conflated: NaN payloads, −0.0 …) -/
theorem C01_le_injective (k v w : Nat) (hv : v < 256 ^ k) (hw : w < 256 ^ k)
    (h : encodeLE k v = encodeLE k w) : v = w := by
  rw [← decode_encode k v hv, ← decode_encode k w hw, h]

/-- **Byte order**: whatever the dtype's byte-order tag and the host, the stored bytes are the
little-endian bytes of the element. -/
theorem C01_stored_is_little_endian (t : Tag) (h : Host) (k v : Nat) : storedBytes t h k v = encodeLE k v :=
  storedBytes_eq t h k v

/-- the writer swaps exactly when the element sits big-endian in memory (for elements wider than one
byte whose byte reversal differs) -/
theorem C01_swaps_iff_memory_big_endian (t : Tag) (h : Host) (k v : Nat) :
    writerSwaps t h = true → memBytes t h k v = (encodeLE k v).reverse := by
  cases t <;> cases h <;> simp [writerSwaps, memBytes]

/-- **C order**: flatten then reshape returns every element at its own multi-index, for every rank
and shape and every memory layout of the input (`elem` is arbitrary). -/
theorem C01_flatten_reshape (shape : List Nat) (elem : List Nat → Nat) (idx : List Nat) (h : InBounds shape idx) :
    reshapeGet shape (flattenC shape elem) idx = some (elem idx) := by
  simp only [reshapeGet, flattenC, List.getElem?_map, indices_get shape idx h, Option.map_some]

/-- C order is a bijection between valid multi-indices and positions -/
theorem C01_c_order_bijection (shape : List Nat) :
    (∀ idx, InBounds shape idx → ravel shape idx < size shape ∧ unravel shape (ravel shape idx) = idx) ∧
    (∀ n, n < size shape → InBounds shape (unravel shape n) ∧ ravel shape (unravel shape n) = n) :=
  ⟨fun idx h => ⟨ravel_lt shape idx h, unravel_ravel shape idx h⟩,
   fun n h => ⟨unravel_inBounds shape n h, ravel_unravel shape n h⟩⟩

/-- **A whole FlatBuffers attribute**: for every element width `k ≥ 1`, shape, layout, byte-order tag
and host, decoding the stored byte vector gives back, at every multi-index, the bit pattern that was
written there; and the vector is exactly `size shape * k` bytes long. -/
theorem C01_attribute_roundtrip (t : Tag) (h : Host) (k : Nat) (shape : List Nat) (elem : List Nat → Nat)
    (hel : ∀ idx, elem idx < 256 ^ k) (idx : List Nat) (hin : InBounds shape idx) :
    decodeAttr k shape (encodeAttr t h k shape elem) idx = some (elem idx) ∧
    (encodeAttr t h k shape elem).length = size shape * k := by
  have hst : storedBytes t h k = encodeLE k := funext (storedBytes_eq t h k)
  constructor
  · simp only [decodeAttr, encodeAttr, hst]
    rw [← flattenC_length shape elem, groups_flatMap k (encodeLE k) (encodeLE_length k)]
    simp only [List.map_map]
    simp only [reshapeGet, flattenC, List.map_map, List.getElem?_map, indices_get shape idx hin, Option.map_some,
      Function.comp, decode_encode k _ (hel idx)]
  · simp only [encodeAttr, hst, List.length_flatMap, encodeLE_length, List.map_const', sum_replicate_nat,
      flattenC_length]

/-- The hypothesis `k ≥ 1` matters: with `k = 0` (dtype "bytes"/"str" in a FlatBuffers dataset, numpy
itemsize 0) every element is stored as no bytes at all and nothing can be read back. -/
theorem C01_zero_width_stores_nothing (t : Tag) (h : Host) (shape : List Nat) (elem : List Nat → Nat) :
    encodeAttr t h 0 shape elem = [] := by
  simp [encodeAttr, storedBytes_eq, encodeLE]

/-- **Two's complement**: an in-range integer is recovered from its bit pattern. -/
theorem C01_int_pattern_roundtrip (k : IntKind) (hb : 0 < k.bits) (v : Int) (h : k.holds v) :
    ofPattern k (toPattern k v) = v ∧ toPattern k v < 2 ^ k.bits :=
  ⟨pattern_roundtrip k hb v h, toPattern_lt k v⟩

/-- executable form of "src → dst is a range inclusion between integer kinds" -/
def castOk (src dst : String) : Bool :=
  match intKindOf src, intKindOf dst with
  | some s, some d => decide (0 < d.bits) && rangeIncl s d
  | _, _ => false

theorem castOk_spec (src dst : String) (h : castOk src dst = true) :
    ∃ s d, intKindOf src = some s ∧ intKindOf dst = some d ∧ 0 < d.bits ∧ rangeIncl s d = true := by
  unfold castOk at h
  split at h
  · rename_i s d hs hd
    simp only [Bool.and_eq_true, decide_eq_true_eq] at h
    exact ⟨s, d, hs, hd, h.1, h.2⟩
  · cases h

/-- **Safe integer cast**: every pair numpy calls "safe" (generated table) is a range inclusion, so a
value written through a narrower integer dtype is stored with its exact value. -/
theorem C01_safe_int_casts_preserve_value :
    ∀ p ∈ npSafeIntCasts, ∃ s d, intKindOf p.1 = some s ∧ intKindOf p.2 = some d ∧ 0 < d.bits ∧
      ∀ v : Int, s.holds v → d.holds v ∧ ofPattern d (toPattern d v) = v := by
  have key : ∀ p ∈ npSafeIntCasts, castOk p.1 p.2 = true := by decide +kernel
  intro p hp
  obtain ⟨s, d, h1, h2, h3, h4⟩ := castOk_spec _ _ (key p hp)
  exact ⟨s, d, h1, h2, h3, fun v hv => ⟨rangeIncl_holds s d h4 v hv, pattern_roundtrip d h3 v (rangeIncl_holds s d h4 v hv)⟩⟩

/-- **TFRecord integers**: every dtype the encoder stores as an Int64List (generated table) is an
integer kind whose whole range fits int64, and the decoder parses it as int64. -/
theorem C01_tfrec_ints_widen_exactly :
    ∀ p ∈ tfrecEncode, p.2 = "int64" →
      (∃ s, intKindOf p.1 = some s ∧ ∀ v : Int, s.holds v → int64.holds v ∧ ofPattern int64 (toPattern int64 v) = v) ∧
      tfrecDecode.lookup p.1 = some "int64" := by
  have key : ∀ p ∈ tfrecEncode, p.2 = "int64" → castOk p.1 "int64" = true ∧ tfrecDecode.lookup p.1 = some "int64" := by
    decide +kernel
  intro p hp he
  obtain ⟨hk, h3⟩ := key p hp he
  obtain ⟨s, d, h1, hd, _, h2⟩ := castOk_spec _ _ hk
  have hd' : d = int64 := by
    have : intKindOf "int64" = some int64 := by decide
    rw [this] at hd; exact (Option.some.inj hd).symm
  subst hd'
  have hb : 0 < int64.bits := by decide
  exact ⟨⟨s, h1, fun v hv => ⟨rangeIncl_holds s int64 h2 v hv, pattern_roundtrip int64 hb v (rangeIncl_holds s int64 h2 v hv)⟩⟩, h3⟩

/- TFRecord: what a dtype is written as is what it is parsed as, for every dtype the decoder reads
as the same kind (a FloatList is float32: a dtype written as `float` and parsed as float32 must be
float32 itself; `float64` is written as `float` but parsed as float64 — not a supported combination). -/
theorem C01_tfrec_float_is_float32 : ∀ p ∈ tfrecEncode, p.2 = "float" → p.1 ∈ tfrecSupported → p.1 = "float32" := by
  decide +kernel

/-- **Codec pairing**: every compression name is decompressed by the codec family that compressed it,
in Python and in the Rust reader (generated from both match statements). -/
theorem C01_codecs_paired :
    (∀ p ∈ pyCompress, pyDecompress.lookup p.1 = some p.2) ∧
    (∀ c ∈ (compressions.lookup "CompressedFile").getD [], (pyCompress.lookup c).isSome) ∧
    (∀ p ∈ rustFromStr, ∃ fam, (rustDecode.lookup p.2) = some fam ∧ pyCompress.lookup p.1 = some fam) := by
  decide +kernel

/-- **The pipeline**: with a container whose `parse` inverts `build`, and a codec whose `decompress`
inverts `compress` (the external laws; trusted, exercised by the correspondence check), writing then
reading gives back what sedpack's own encoding step hands to the container — which by
`C01_attribute_roundtrip` decodes to the written bit patterns. -/
theorem C01_pipeline {Ex File : Type} (build : Ex → File) (parse : File → Option Ex)
    (compress decompress : File → File)
    (hcontainer : ∀ e, parse (build e) = some e) (hcodec : ∀ f, decompress (compress f) = f) (e : Ex) :
    parse (decompress (compress (build e))) = some e := by
  rw [hcodec, hcontainer]

/-! ### non-vacuity and concrete instances -/

-- float32 1.0 = 0x3F800000 on a little-endian host, native tag
example : storedBytes .native .littleEndian 4 0x3F800000 = [0x00, 0x00, 0x80, 0x3F] := by decide
-- the same element on a big-endian host: memory holds 3F 80 00 00, the writer swaps
example : memBytes .native .bigEndian 4 0x3F800000 = [0x3F, 0x80, 0x00, 0x00] ∧ writerSwaps .native .bigEndian = true := by decide
-- a 2×3 array given in Fortran order (memory [0,3,1,4,2,5] holds logical a[i][j] = 3i+j)
example : flattenC [2, 3] (fun idx => match idx with | [i, j] => 3 * i + j | _ => 0) = [0, 1, 2, 3, 4, 5] := by decide
example : InBounds [2, 3] [1, 2] ∧ ravel [2, 3] [1, 2] = 5 := by decide
-- rank 0: one element, one index
example : indices [] = [[]] ∧ size [] = 1 := by decide
example : (⟨8, true⟩ : IntKind).holds (-128) ∧ toPattern ⟨8, true⟩ (-128) = 128 ∧ ofPattern ⟨8, true⟩ 128 = -128 := by decide
example : tfrecSupported = ["int8", "uint8", "int32", "int64", "float16", "float32", "str", "bytes"] := by decide +kernel

end Sedpack.Codec
