import SedpackProps.C19Gen
/-!
# C19 — `repeat` is a flag, in the current source

The theorems of `C19.lean` are about the stream an interface produces *when repetition is on*.  What "on" means in the code is
decided here, over a table generated from `dataset_iteration.py` on every run (`C19Gen.lean`): the flag is only ever
truth-tested, forwarded under its own name, or stored for a later truth test — it is never compared with a type, never used as a
number, never handed to a foreign callee — so every truthy spelling (`True`, the default, `numpy.True_`, `1`) takes the same
branch; tf.data's `repeat` is called without a count, i.e. forever.
-/
namespace Sedpack.Repeat
open Gen

/-- every read of the flag is a truth test, a forwarding `repeat=repeat`, or the store into `_repeat` -/
theorem C19_repeat_is_only_truth_tested :
    repeatUses.all (fun u => ["test", "forward", "store"].contains u.2) = true := by decide +kernel

/-- every function that takes the flag defaults it to on, and reads it -/
theorem C19_repeat_defaults_on :
    repeatDefaults.all (fun d => d.2 == "True" && repeatUses.any (fun u => u.1 == d.1)) = true := by decide +kernel

/-- the five public interfaces take the flag -/
theorem C19_repeat_interfaces :
    ["DatasetIteration.as_tfdataset", "DatasetIteration.as_numpy_iterator", "DatasetIteration.as_numpy_iterator_concurrent",
     "DatasetIteration.as_numpy_iterator_async", "DatasetIteration.as_numpy_iterator_rust"].all
      (fun f => repeatDefaults.any (fun d => d.1 == f)) = true := by decide +kernel

/-- every chain of forwards ends in a truth test: the functions that do not test forward, and the three sinks test -/
theorem C19_repeat_reaches_a_test :
    (["DatasetIteration.as_tfdataset", "DatasetIteration.as_numpy_common", "RustGenerator.__call__"].all
        (fun f => repeatUses.contains (f, "test"))
      && repeatDefaults.all (fun d => repeatUses.contains (d.1, "test") || repeatUses.contains (d.1, "forward")
                                      || repeatUses.contains (d.1, "store"))) = true := by decide +kernel

/-- tf.data's `Dataset.repeat` is called without a count — forever — and only there -/
theorem C19_tf_repeat_forever :
    (repeatCallArities.all (fun c => c.2 == 0) && repeatCallArities.any (fun c => c.1 == "DatasetIteration.as_tfdataset")) = true := by
  decide +kernel

end Sedpack.Repeat
