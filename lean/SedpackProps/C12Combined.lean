import SedpackProps.C12
/-!
# C12 — all three options together

`C12_select_firstk`, `C12_select_filter` and `C12_select_limit` describe each option alone.  A caller may give all three;
the order in which `shard_info_iterator`'s consumers apply them matters (the predicate first, then the first `k` of what it
accepted, then the per-metadata limit on that).  The theorem below is the closed form of the combination for every
dataset, predicate, `k ≥ 1` and `n ≥ 1`.
-/
namespace Sedpack.Sel

/-- **Predicate, then first `k`, then at most `n` per metadata value**: the whole selection in closed form, and per
metadata value `m` exactly the first `n` shards with that value among the first `k` accepted ones, in order. -/
theorem C12_select_combined (infos : List ShardI) (p : ShardI → Bool) (k n : Nat) (hk : 1 ≤ k) (hn : 1 ≤ n)
    (out : List ShardI) (h : select infos (some p) (some (k : Int)) (some n) = .ok out) :
    out = limitLoop n ((infos.filter p).take k) (fun _ => 0) ∧
    ∀ m, out.filter (fun s => s.md = m) = (((infos.filter p).take k).filter (fun s => s.md = m)).take n := by
  obtain ⟨_, rfl⟩ := select_ok infos (some p) (some (k : Int)) (some n) out h
  have hk0 : ¬ ((k : Int) = 0) := by omega
  have hge : (k : Int) ≥ 0 := by omega
  have hn0 : ¬ n = 0 := by omega
  have hout : stageLimit (stageFirstK (stageFilter infos (some p)) (some (k : Int))) (some n) =
      limitLoop n ((infos.filter p).take k) (fun _ => 0) := by
    have hk1 : k ≠ 0 := by omega
    simp [stageFilter, stageFirstK, stageLimit, hn0, hk1, pySliceTo, hge]
  rw [hout]
  refine ⟨rfl, fun m => ?_⟩
  simpa using limitLoop_filter n m ((infos.filter p).take k) (fun _ => 0)

/-- the combination never selects a shard the predicate rejects, nor one beyond the first `k` accepted -/
theorem C12_select_combined_sub (infos : List ShardI) (p : ShardI → Bool) (k n : Nat) (hk : 1 ≤ k) (hn : 1 ≤ n)
    (out : List ShardI) (h : select infos (some p) (some (k : Int)) (some n) = .ok out) :
    out.Sublist ((infos.filter p).take k) := by
  rw [(C12_select_combined infos p k n hk hn out h).1]
  exact limitLoop_sublist n _ _

/-- non-vacuity: seven shards, predicate "id ≠ 1", first 5 accepted, at most 2 per metadata value — the order of the
stages shows: shard 6 is accepted by the predicate but lies beyond the first five accepted, shard 4 is the third of value 1 -/
example : select [⟨0, 1⟩, ⟨1, 1⟩, ⟨2, 2⟩, ⟨3, 1⟩, ⟨4, 1⟩, ⟨5, 2⟩, ⟨6, 2⟩] (some (fun s => s.id != 1)) (some 5) (some 2) =
    .ok [⟨0, 1⟩, ⟨2, 2⟩, ⟨3, 1⟩, ⟨5, 2⟩] := by rfl

end Sedpack.Sel
