import SedpackProps.SrcGen
/-!
# C08 — the description file exists at every instant once it exists, in the current source

"Creating a dataset where one already exists is refused" is decided by `Dataset.create` from the *presence* of the description
file.  That is a safe test at every instant of another handle's commit only if a commit never takes the file away: re-checked
against the source text extracted on this run — `write_config` and `safe_update_file` publish by one atomic `replace` of a temp
file written beforehand, and nothing is moved aside, renamed away or unlinked.
-/
namespace Sedpack.Src

/-- `Dataset.create`: the existence test (`is_file`) and the refusal come before anything is created or written -/
theorem C08_src_create_refuses_first :
    (allBefore datasetCreate "is_file" "raise" && allBefore datasetCreate "raise" "mkdir" && allBefore datasetCreate "raise" "write_config"
      && occurrences datasetCreate "raise" == 1) = true := by decide +kernel
/-- `DatasetWriting.write_config` touches the description file through `safe_update_file` only — once, at the very end — and
`safe_update_file` writes the temp file, then replaces: the target is never absent in between -/
theorem C08_src_description_never_absent :
    (occurrences datasetWriteConfig "safe_update_file" == 1 && !datasetWriteConfig.contains "replace" && !datasetWriteConfig.contains "rename"
      && !datasetWriteConfig.contains "unlink" && !datasetWriteConfig.contains "remove" && !datasetWriteConfig.contains "move"
      && occurrences safeUpdateFile "replace" == 1 && allBefore safeUpdateFile "write" "replace"
      && !safeUpdateFile.contains "unlink" && !safeUpdateFile.contains "rename" && !safeUpdateFile.contains "remove") = true := by decide +kernel

end Sedpack.Src
