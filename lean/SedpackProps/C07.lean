import SedpackProps.C13
import SedpackProps.C02
import SedpackProps.C15
/-!
# C07 — Unreadable shards surface as errors: never a hang, never silent truncation

*No silent truncation* is the contrapositive of exactly-once delivery: a pass that ends normally
has delivered every element of its source, so it cannot have skipped a shard whose loader failed.
*No hang* is deadlock-freedom plus termination.  For the Python paths the loader's exception
propagates through the generators (they only catch end-of-iteration); for the shuffled concurrent
path this is the lazy pool (`forward = true`); for Rust it is `fstep` with `propagate = true`.
`C07_rust_original_truncates` (and C13's `C13_original_deadlocks`) are the kernel-checked witnesses
that the pinned semantics violate the statement (defects D9, D2 — both repaired in /repo).
-/
namespace Sedpack.Pool

/-- **Lazy pool, failing loader**: under every interleaving the pass can neither end normally
(silent truncation) nor get stuck, and every schedule is finite; every terminal state has the
consumer re-raised (`fin 1`) or abandoned by its caller (`fin 2`), all worker threads returned. -/
theorem C07_pool_fault_raises (c : Cfg) (g : Good c) (n i : Nat) (hn : c.n = some n) (hi : i < n) (hf : c.fails i = true)
    (s : St) (h : Reach c s) :
    ¬ normalEnd s ∧ (¬ terminal s → ∃ l, (step c s l).isSome = true) ∧
    (∀ tr s', accepts c s tr = some s' → tr.length ≤ mu c n s) ∧
    (terminal s → s.ph = .fin 1 ∨ s.ph = .fin 2) := by
  have hne := C13_fault_no_silent_end c g n i hn hi hf s h
  refine ⟨hne, C13_deadlock_free c g s h, fun tr s' ha => C13_terminates c g n hn s s' h tr ha, ?_⟩
  intro ht
  obtain ⟨⟨why, hw⟩, _⟩ := ht
  have hle := why_le_two c s h
  rw [hw] at hle
  simp only [whyOf] at hle
  have h3 : why = 0 ∨ why = 1 ∨ why = 2 := by omega
  rcases h3 with h0 | h1 | h2
  · exact absurd (Or.inr (by rw [hw, h0])) hne
  · exact Or.inl (by rw [hw, h1])
  · exact Or.inr (by rw [hw, h2])

end Sedpack.Pool

namespace Sedpack.Pipe
open Sedpack.Iter

/-- **Sequential / async / batched paths**: a complete pass has pulled every element of its source
and yielded a permutation of it — so a pass over a source one of whose shards cannot be loaded
(that shard's examples never arrive) cannot be complete: the pass does not end normally. -/
theorem C07_complete_pass_delivers_everything (b : Nat) (xs out : List Nat) (h : SBRun b xs out) (x : Nat) (hx : x ∈ xs) : x ∈ out :=
  (SBRun_perm b xs out h).symm.subset hx

theorem C07_round_robin_delivers_everything (b : Nat) (ls : List (List Nat)) (out : List Nat) (h : RRRun b ls out)
    (l : List Nat) (hl : l ∈ ls) (x : Nat) (hx : x ∈ l) : x ∈ out :=
  (RRRun_perm b ls out h).symm.subset (List.mem_flatten.mpr ⟨l, hl, hx⟩)

end Sedpack.Pipe

namespace Sedpack.PMap

/-- D9 — the pinned `ParallelMap::next`: 1 worker, 2 items, the function panics on the first:
the iteration *ends normally* having returned nothing (silent truncation). -/
theorem C07_rust_original_truncates :
    let f : FCfg := { c := { m := 1, nq := 2, nr := 0 }, fails := fun a _ => a = 0, propagate := false }
    (faccepts f (finit f) [.wRecv 0, .wSend 0, .cNext]).map (fun t => (t.s.ended, t.s.out, t.failed)) = some (true, [], false) := by
  decide

/-- the repaired one reports the dead worker instead -/
theorem C07_rust_repaired_raises :
    let f : FCfg := { c := { m := 1, nq := 2, nr := 0 }, fails := fun a _ => a = 0, propagate := true }
    (faccepts f (finit f) [.wRecv 0, .wSend 0, .cNext]).map (fun t => (t.s.ended, t.s.out, t.failed)) = some (false, [], true) := by
  decide

/-- **Repaired Rust path, in general**: `next()` never reports the end of the iteration for a
worker that died without having been told to finish — whenever the consumer finds such a worker,
the only possible outcome of the call is the failure. -/
theorem C07_rust_dead_worker_is_reported (f : FCfg) (hp : f.propagate = true) (t : FSt) (hm : f.c.m ≠ 0)
    (hlive : t.failed = false ∧ t.s.ended = false ∧ t.s.dropped = false)
    (hnores : ¬ t.s.posOut t.s.now < t.s.posW t.s.now) (hdead : t.s.exited t.s.now = true) (hnofin : t.s.fin t.s.now = false) :
    fstep f t .cNext = some { t with failed := true } := by
  obtain ⟨h1, h2, h3⟩ := hlive
  simp [fstep, h1, h2, h3, hm, hnores, hdead, hnofin, hp]

/-- without failing items the fault-aware step is the plain step (so C15's theorems apply) -/
theorem C07_fstep_eq_step (f : FCfg) (hnf : ∀ a b, f.fails a b = false) (t : FSt) (l : Lbl)
    (hok : ∀ w, t.s.exited w = true → t.s.fin w = true ∨ t.s.dropped = true) (hf : t.failed = false) :
    fstep f t l = (step f.c t.s l).map (fun s' => { t with s := s' }) := by
  cases l with
  | wRecv w => rfl
  | cDrop => rfl
  | wSend w => simp [fstep, hnf]
  | cNext =>
    have hcond : ¬ (f.c.m ≠ 0 ∧ ¬ (t.s.ended ∨ t.s.dropped) ∧ ¬ (t.s.posOut t.s.now < t.s.posW t.s.now) ∧ t.s.exited t.s.now = true ∧
        t.s.fin t.s.now = false ∧ f.propagate) := by
      intro hc
      obtain ⟨_, hnd, _, hex, hfin, _⟩ := hc
      rcases hok _ hex with h | h
      · rw [hfin] at h; cases h
      · exact hnd (Or.inr h)
    simp only [fstep, hf, Bool.false_eq_true, if_false, hcond]

end Sedpack.PMap
