import SedpackProps.C15Drop
import SedpackProps.C03Rust
import SedpackProps.C19
/-!
# C15 — an early-dropped Rust iterator has delivered a prefix of what the Python reader delivers

Shard level: item `k` of `parallel_map`'s input is shard `ps[k]`, served as its examples `ex ps[k]` in order.
At any moment of any execution — any thread count, any interleaving, before or after `drop` — the examples of the shards
returned so far are those of the first `k` shards of the list, in list order: a prefix of the list the Python readers yield
unshuffled (`C03_sync_unshuffled_eq`: `paths.flatMap ex`).
-/
namespace Sedpack.Pipe

theorem C15_early_drop_is_python_prefix (c : PMap.Cfg) (g : PMap.Good c) (s : PMap.St) (h : PMap.Reach c s) (hm : 0 < c.m)
    (ps : List Nat) (ex : Nat → List Nat) (hk : s.out.length ≤ ps.length) :
    (s.out.map (PMap.idx c.m)).flatMap (fun k => ex (ps.getD k 0)) = (ps.take s.out.length).flatMap ex := by
  rw [PMap.C15_any_prefix_is_input_prefix c g s h hm]
  have h1 := range_flatMap_getD (ps.take s.out.length) ex
  rw [List.length_take, Nat.min_eq_left hk] at h1
  rw [← h1]
  apply flatMap_congr_mem
  intro i hi
  have hi' : i < s.out.length := List.mem_range.1 hi
  congr 1
  simp [List.getD, List.getElem?_take, hi']

/-- and that is a prefix of the unshuffled Python output -/
theorem C15_early_drop_prefix_of_full (ps : List Nat) (ex : Nat → List Nat) (k : Nat) :
    (ps.take k).flatMap ex <+: ps.flatMap ex := by
  conv => rhs; rw [← List.take_append_drop k ps, List.flatMap_append]
  exact List.prefix_append _ _

end Sedpack.Pipe
