import SedpackProps.C10
/-!
# C11 — Shard-level custom metadata describes exactly the examples it labels

The model stores the *value* the metadata argument had at the time of the write (the repaired code
deep-copies it), so later mutation or reuse of the caller's object cannot reach the stored value:
an op list is the list of values at call time.  Reading applied: examples written with *absent*
metadata are unconstrained (the code labels them retroactively, as its docstring says).
-/
namespace Sedpack.Fill

/-- Every accepted write with a non-empty metadata value `m` is stored in a listed shard whose
recorded metadata is `m` — for every interleaving of splits, values, rejections and size boundaries. -/
theorem C11_md_labels (eps : Nat) (heps : 1 ≤ eps) (ops : List Op) (sp : Nat) :
    ∃ cl, listed eps ops sp = some cl ∧
      ∀ c ∈ cl, ∀ q ∈ c.exs, q.2 ≠ 0 → c.md = q.2 := by
  obtain ⟨cl, h1, h2, _, _⟩ := listed_spec eps heps ops sp
  exact ⟨cl, h1, fun c hc q hq h0 => ((h2 c hc).lab q hq h0).symm⟩

/-- Exactly the accepted writes of the split are stored, each once, in the order written
(also the session-order fact C03 needs). -/
theorem C11_every_write_listed_once (eps : Nat) (heps : 1 ≤ eps) (ops : List Op) (sp : Nat) :
    ∃ cl, listed eps ops sp = some cl ∧ cl.flatMap (·.exs) = accepted ops sp := by
  obtain ⟨cl, h1, _, h3, _⟩ := listed_spec eps heps ops sp
  exact ⟨cl, h1, h3⟩

/-- Selecting shards by metadata `m ≠ 0` returns all examples written under `m` and none written
under a different non-empty value. -/
theorem C11_select_by_md (eps : Nat) (heps : 1 ≤ eps) (ops : List Op) (sp m : Nat) (hm : m ≠ 0) :
    ∃ cl, listed eps ops sp = some cl ∧
      let sel := (cl.filter (fun c => c.md = m)).flatMap (·.exs)
      (∀ q ∈ accepted ops sp, q.2 = m → q ∈ sel) ∧ (∀ q ∈ sel, q.2 = 0 ∨ q.2 = m) := by
  obtain ⟨cl, h1, h2, h3, _⟩ := listed_spec eps heps ops sp
  refine ⟨cl, h1, ?_, ?_⟩
  · intro q hq hqm
    rw [← h3] at hq
    simp only [List.mem_flatMap] at hq ⊢
    obtain ⟨c, hc, hqc⟩ := hq
    refine ⟨c, ?_, hqc⟩
    simp only [List.mem_filter, decide_eq_true_eq]
    exact ⟨hc, by rw [← (h2 c hc).lab q hqc (by omega)]; exact hqm⟩
  · intro q hq
    simp only [List.mem_flatMap, List.mem_filter, decide_eq_true_eq] at hq
    obtain ⟨c, ⟨hc, hcm⟩, hqc⟩ := hq
    by_cases h0 : q.2 = 0
    · exact Or.inl h0
    · exact Or.inr (by rw [(h2 c hc).lab q hqc h0]; exact hcm)

/-! ## The pinned code's reference semantics (defect D3), as a machine-checked witness

`current_progress.shard.shard_info.custom_metadata = custom_metadata` stores the caller's dict
itself.  `heap o` is the current value of object `o`; the shard keeps the object id and the value
is read when the list is serialised (after all writes). -/

structure RefShard where
  ref : Option Nat
  exs : List (Nat × Nat)      -- (example, metadata value at the time of the write)
deriving Repr, DecidableEq

inductive RefOp
  | write (obj ex : Nat)       -- write_example(custom_metadata=<object obj>)
  | mutate (obj val : Nat)     -- the caller changes the object in place
deriving Repr, DecidableEq

/-- single split, no size roll-over: just the metadata logic of the pinned code -/
def refStep (st : (Nat → Nat) × List RefShard × RefShard) : RefOp → (Nat → Nat) × List RefShard × RefShard
  | .mutate o v => (fun x => if x = o then v else st.1 x, st.2.1, st.2.2)
  | .write o ex =>
    let heap := st.1
    let cur := st.2.2
    let prev := (cur.ref.map heap).getD 0
    if heap o ≠ 0 ∧ prev ≠ 0 ∧ heap o ≠ prev then
      (heap, st.2.1 ++ [cur], { ref := some o, exs := [(ex, heap o)] })
    else (heap, st.2.1, { ref := if heap o ≠ 0 then some o else cur.ref, exs := cur.exs ++ [(ex, heap o)] })

def refRun (ops : List RefOp) : List (Nat × List (Nat × Nat)) :=
  let st := ops.foldl refStep (fun _ => 1, [], { ref := none, exs := [] })
  (st.2.1 ++ [st.2.2]).map (fun s => ((s.ref.map st.1).getD 0, s.exs))

/-- D3: `write(m); m.update(...); write(m)` — the first example was written under value 1 but is
stored in a shard labelled 2, and the change of value did not even start a new shard. -/
theorem C11_alias_counterexample :
    refRun [.write 7 100, .mutate 7 2, .write 7 101] = [(2, [(100, 1), (101, 2)])] := by
  decide

/-- Non-vacuity of `C11_md_labels`: alternating values across a size boundary. -/
example : (listed 2 [.write 0 1 10 true, .write 0 1 11 true, .write 0 1 12 true, .write 0 2 13 true,
    .write 0 0 14 true] 0).map (·.map (fun c => (c.md, c.exs))) =
    some [(1, [(10, 1), (11, 1)]), (1, [(12, 1)]), (2, [(13, 2), (14, 0)])] := by decide

end Sedpack.Fill
