import SedpackProofs.Hash
import SedpackProps.C16Gen
/-!
# C16 — Recorded checksums are the standard digests of the exact file bytes

Property theorems only.  Quantifiers: every file content (any size), every buffer size `B ≥ 1`
(the code uses 128 KiB), every short-read behaviour `want` of the operating system, every tuple of
algorithm names (order and repetitions included), every streaming hash algorithm.
-/
namespace Sedpack.Hash

/-- The bytes fed to every hash object, concatenated, are exactly the file content. -/
theorem C16_chunks_concat (B : Nat) (hB : 1 ≤ B) (content : List Byte) (want : Nat → Nat) :
    (chunks B content want (content.length + 1) 0 0).flatten = content := by
  simpa using chunks_flatten B hB content want (content.length + 1) 0 0 (by omega)

/-- Each digest returned is the standard one-shot digest of the whole content, the `i`-th result
belonging to the `i`-th configured name (so order and repetitions are preserved). -/
theorem C16_digest_is_standard {σ} (algo : String → Algo σ)
    (law : ∀ n s x y, (algo n).update ((algo n).update s x) y = (algo n).update s (x ++ y))
    (nil : ∀ n s, (algo n).update s [] = s)
    (names : List String) (B : Nat) (hB : 1 ≤ B) (content : List Byte) (want : Nat → Nat) :
    hashChecksums algo names B content want = names.map (fun n => standard (algo n) content) := by
  unfold hashChecksums standard feed
  simp only [List.map_map]
  apply List.map_congr_left
  intro n _
  simp only [Function.comp]
  rw [foldl_update (algo n) (law n) (nil n), C16_chunks_concat B hB]

/-- Length and order: one digest per configured name. -/
theorem C16_order_preserved {σ} (algo : String → Algo σ) (names : List String) (B : Nat)
    (content : List Byte) (want : Nat → Nat) :
    (hashChecksums algo names B content want).length = names.length := by
  simp [hashChecksums]

/-- The loop never feeds an empty or over-long slice (so it terminates after at most `len` reads). -/
theorem C16_chunk_sizes (B : Nat) (content : List Byte) (want : Nat → Nat) :
    ∀ c ∈ chunks B content want (content.length + 1) 0 0, 0 < c.length ∧ c.length ≤ B :=
  chunks_sizes B content want _ _ _

/-- Non-vacuity: a concrete algorithm (the identity "hash" that records its input) satisfies the
streaming law, and a 5-byte file read with `B = 2` and a short-read pattern is fed as 3 slices. -/
def recAlgo : Algo (List Byte) := { init := [], update := fun s x => s ++ x, hexdigest := fun s => toString s }
example : (∀ s x y, recAlgo.update (recAlgo.update s x) y = recAlgo.update s (x ++ y)) ∧
    (∀ s, recAlgo.update s [] = s) ∧
    chunks 2 [1,2,3,4,5] (fun k => if k = 1 then 1 else 9) 6 0 0 = [[1,2],[3],[4,5]] := by
  refine ⟨?_, ?_, by decide⟩
  · intro s x y; simp [recAlgo]
  · intro s; simp [recAlgo]

/-- **Name → algorithm** (over the tables generated from `types.py` and `_get_hash_function` on every run): every
supported name is dispatched to the algorithm of that very name, names are pairwise distinct, and every explicit arm of the
dispatch is a supported name. -/
theorem C16_every_name_dispatches_to_its_own_algorithm :
    (∀ n ∈ Gen.hashNames, Gen.algorithmOf n = n) ∧ Gen.hashNames.Nodup ∧ (∀ p ∈ Gen.hashArms, p.1 ∈ Gen.hashNames) := by
  decide +kernel

end Sedpack.Hash
