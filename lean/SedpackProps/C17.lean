import SedpackProofs.Path
/-!
# C17 — Paths taken from metadata cannot escape the dataset directory

Quantifiers: **every path string** `s` (relative, absolute, with `.`, `..`, empty and repeated
separators, any depth) in any path-valued metadata field or writer sub-directory argument, every
dataset root.  `fixed` is the repaired validator configuration (absolute paths are rejected too);
`C17_absolute_counterexample` is the witness for the pinned one.  Lexical containment is physical
containment under the stated assumption that the dataset directory contains no symbolic links.
-/
namespace Sedpack.Path

def fixed : Cfg := { rejectAbsolute := true }
def pinned : Cfg := { rejectAbsolute := false }

/-- what the validator's acceptance means -/
theorem accepts_iff (p : P) : acceptsFileInfo fixed p = true ↔ (".." ∉ p.comps ∧ p.abs = false) := by
  simp [acceptsFileInfo, fixed]

/-- **Containment.** For every string the repaired validator accepts, joining it to any root
gives a location whose normal form starts with the root's normal form, followed by exactly the
path's own components: it lies inside the root. -/
theorem C17_validator_contains (root : P) (s : String) (h : acceptsFileInfo fixed (parse s) = true) :
    normalize (join root (parse s)) = normalize root ++ (parse s).comps ∧
    under (normalize root) (normalize (join root (parse s))) = true := by
  obtain ⟨hdd, habs⟩ := (accepts_iff (parse s)).mp h
  have hj : join root (parse s) = { abs := root.abs, comps := root.comps ++ (parse s).comps } := by
    simp [join, habs]
  have hn : normalize (join root (parse s)) = normalize root ++ (parse s).comps := by
    rw [hj]
    simp only [normalize]
    rw [normComps_append, normComps_no_dotdot _ _ hdd]
    simp
  refine ⟨hn, ?_⟩
  rw [hn]
  simp [under, List.isPrefixOf_iff_prefix]

/-- **Everything outside is rejected**: a string whose join escapes the root is not accepted. -/
theorem C17_rejects_outside (root : P) (s : String)
    (hout : under (normalize root) (normalize (join root (parse s))) = false) :
    acceptsFileInfo fixed (parse s) = false := by
  cases h : acceptsFileInfo fixed (parse s) with
  | false => rfl
  | true => have := (C17_validator_contains root s h).2; rw [hout] at this; cases this

/-- the shard-list path validators and the writer's sub-directory guard accept only what the
file-path validator accepts -/
theorem C17_list_and_subdir_validators (s : String) :
    (acceptsListPath fixed (parse s) = true → acceptsFileInfo fixed (parse s) = true) ∧
    (acceptsSubdir fixed (parse s) = true → acceptsFileInfo fixed (parse s) = true) := by
  constructor
  · intro h; simp only [acceptsListPath, Bool.and_eq_true] at h; exact h.2
  · intro h; exact h

/-- an accepted shard-list path really names a `shards_list.json` -/
theorem C17_list_name (s : String) (h : acceptsListPath fixed (parse s) = true) : name (parse s) = "shards_list.json" := by
  simp only [acceptsListPath, Bool.and_eq_true, beq_iff_eq] at h; exact h.1

/-- every file location the reading code derives is `root / validated path` (dataset_base,
dataset_iteration, dataset_writing all use this join), hence inside the root -/
theorem C17_reads_inside (root : P) (paths : List String) (h : ∀ s ∈ paths, acceptsFileInfo fixed (parse s) = true) :
    ∀ s ∈ paths, under (normalize root) (normalize (join root (parse s))) = true :=
  fun s hs => (C17_validator_contains root s (h s hs)).2

/-- D8 — the pinned validators accept an absolute path (here the parsed form of `/etc/x`), and
joining it to the root `/data/ds` discards the root -/
theorem C17_absolute_counterexample :
    acceptsFileInfo pinned ⟨true, ["etc", "x"]⟩ = true ∧
    join ⟨true, ["data", "ds"]⟩ ⟨true, ["etc", "x"]⟩ = ⟨true, ["etc", "x"]⟩ ∧
    under (normalize ⟨true, ["data", "ds"]⟩) (normalize (join ⟨true, ["data", "ds"]⟩ ⟨true, ["etc", "x"]⟩)) = false := by
  decide

/-- Non-vacuity: an accepted relative path, a rejected `..`, a rejected absolute path (parsed
forms; the parser itself is compared with `pathlib` on generated strings by the harness) -/
example : acceptsFileInfo fixed ⟨false, ["train", "a", "x.fb"]⟩ = true ∧
    acceptsFileInfo fixed ⟨false, ["train", "..", "..", "x"]⟩ = false ∧
    acceptsFileInfo fixed ⟨true, ["etc", "passwd"]⟩ = false := by decide

end Sedpack.Path
