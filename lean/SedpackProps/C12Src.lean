import SedpackProps.SrcGen
/-!
# C12 — the selection is recomputed for every pass, in the current source

`Sel.select` is a function of the enumerated shard infos and the three options.  Re-checked against the source text extracted
on this run: `shard_paths_dataset` starts from `shard_info_iterator`, applies the predicate (`filter`) first, refuses an empty
selection, and stores nothing on the dataset object; every NumPy interface obtains its paths from it through `as_numpy_common`.
-/
namespace Sedpack.Src

theorem C12_src_selection_is_recomputed :
    (shardPathsDataset.head? == some "shard_info_iterator" && !hasSelfStore shardPathsDataset && !hasSelfStore asNumpyCommon
      && !hasSelfStore asTfdataset && !hasSelfStore asNumpyIteratorRust) = true := by decide +kernel
/-- predicate first, then the emptiness test; the per-metadata counter (`set:counts`, `cmp:LtE`) comes after both -/
theorem C12_src_filter_then_empty_then_limit :
    (allBefore shardPathsDataset "filter" "raise" && allBefore shardPathsDataset "raise" "set:counts"
      && allBefore shardPathsDataset "set:counts" "cmp:LtE" && allBefore shardPathsDataset "cmp:LtE" "return") = true := by decide +kernel

end Sedpack.Src
