import SedpackProofs.TreeSession
import SedpackProofs.TreeEnum
/-!
# C08 — Continued writing is append-only

Refinement view: what a reader can reach from a split is the set of list directories reachable
through child records, and in each the list's shard files.  A session (any kind) only *appends*
shard entries to the lists it writes into, never changes any other list's shard files, keeps
every previously reachable directory reachable and makes the directories it wrote into reachable.
-/
namespace Sedpack.Tree

/-- the merge never changes any list's shard files, in any directory -/
theorem C08_merge_keeps_files (H : SList → Nat) (B fuel : Nat) (fs : FS) (d : Dir) (us : List Kid)
    (hfuel : B < fuel + d.length) (hpre : Pre B fs d us) (x : Dir) :
    filesAt (merge H fuel fs d us).1 x = filesAt fs x :=
  (merge_spec H B fuel fs d us hfuel hpre).files x

/-- the merge keeps every reachable directory reachable and reaches every update -/
theorem C08_merge_keeps_reachable (H : SList → Nat) (B fuel : Nat) (fs : FS) (d : Dir) (us : List Kid)
    (hfuel : B < fuel + d.length) (hpre : Pre B fs d us) :
    (∀ x, Reaches fs d x → Reaches (merge H fuel fs d us).1 d x) ∧
    (∀ u ∈ us, Reaches (merge H fuel fs d us).1 d u.dir) :=
  ⟨(merge_spec H B fuel fs d us hfuel hpre).reachOld, (merge_spec H B fuel fs d us hfuel hpre).reachUps⟩

/-- **Append-only sessions.** After any session, for every split: every directory that was
reachable is still reachable, and in every directory the old shard entries are a prefix of the new
ones (same entries, same order, new ones appended). -/
theorem C08_session_append_only (H : SList → Nat) (B fuel : Nat) (hfuel : B < fuel + 1) (hB : 1 ≤ B) (ds : DS)
    (se : Session) (hse : ∀ w ∈ se, w.1 ≠ [] ∧ w.1.length ≤ B) (hg : Good H B ds) :
    (∀ s x, Reaches ds.fs [s] x → Reaches (session H fuel ds se).fs [s] x) ∧
    (∀ x, filesAt ds.fs x <+: filesAt (session H fuel ds se).fs x) := by
  obtain ⟨_, _, hreach, hfiles, _⟩ := session_good H B fuel hfuel hB ds se hse hg
  obtain ⟨_, _, _, hpre⟩ := applyWrites_props B se ds.fs hg.wf hg.depth
  refine ⟨fun s x hx => hreach s x (reaches_of_same_kids (applyWrites_kids se ds.fs) hx), fun x => ?_⟩
  rw [hfiles x]; exact hpre x

/-- directories a session did not write into keep exactly their shard entries -/
theorem C08_untouched_dirs_unchanged (H : SList → Nat) (B fuel : Nat) (hfuel : B < fuel + 1) (hB : 1 ≤ B) (ds : DS)
    (se : Session) (hse : ∀ w ∈ se, w.1 ≠ [] ∧ w.1.length ≤ B) (hg : Good H B ds) (x : Dir)
    (hx : ∀ w ∈ se, w.1 ≠ x) : filesAt (session H fuel ds se).fs x = filesAt ds.fs x := by
  obtain ⟨_, _, _, hfiles, _⟩ := session_good H B fuel hfuel hB ds se hse hg
  obtain ⟨_, _, hsame, _⟩ := applyWrites_props B se ds.fs hg.wf hg.depth
  rw [hfiles x]; simp only [filesAt, hsame x hx]

/-- **A session adds exactly what it wrote** (in terms of what iteration enumerates).  In a dataset all of whose list
documents are linked into their split's tree, after any completed session the shards the depth-first walk yields for a
split are exactly those it yielded before plus the shards the session closed in directories of that split. -/
theorem C08_session_adds_exactly (H : SList → Nat) (B fuel : Nat) (hfuel : B < fuel + 1) (hB : 1 ≤ B) (ds : DS) (se : Session)
    (hse : ∀ w ∈ se, w.1 ≠ [] ∧ w.1.length ≤ B) (hg : Good H B ds) (hl : Linked ds.fs) (s : Nat) (sh : Shard) :
    sh ∈ shardsOf fuel (session H fuel ds se).fs [s] ↔
      sh ∈ shardsOf fuel ds.fs [s] ∨ ∃ w ∈ se, w.1.headD 0 = s ∧ sh ∈ w.2 :=
  session_adds_exactly H B fuel hfuel hB ds se hse hg hl s sh

/-- the hypotheses of `C08_session_adds_exactly` hold after **every history of completed sessions** starting from the empty
dataset: the tree is exact and free of unlinked lists (those only arise from sessions that did not complete — C06) -/
theorem C08_history_invariant (H : SList → Nat) (B fuel : Nat) (hfuel : B < fuel + 1) (hB : 1 ≤ B)
    (hist : List Session) (hh : ∀ se ∈ hist, ∀ w ∈ se, w.1 ≠ [] ∧ w.1.length ≤ B) :
    Good H B (hist.foldl (session H fuel) { fs := fun _ => none, splits := fun _ => none }) ∧
    Linked (hist.foldl (session H fuel) { fs := fun _ => none, splits := fun _ => none }).fs := by
  have key : ∀ (hist : List Session) (ds : DS), (∀ se ∈ hist, ∀ w ∈ se, w.1 ≠ [] ∧ w.1.length ≤ B) → Good H B ds → Linked ds.fs →
      Good H B (hist.foldl (session H fuel) ds) ∧ Linked (hist.foldl (session H fuel) ds).fs := by
    intro hist
    induction hist with
    | nil => intro ds _ h1 h2; exact ⟨h1, h2⟩
    | cons se rest ih =>
      intro ds hh hg hl
      simp only [List.foldl_cons]
      have hse := hh se List.mem_cons_self
      exact ih _ (fun se' h' => hh se' (List.mem_cons_of_mem _ h'))
        (session_good H B fuel hfuel hB ds se hse hg).1 (session_linked H B fuel hfuel hB ds se hse hg hl)
  apply key hist _ hh
  · exact ⟨fun d l h => by simp at h, fun d l h => by simp at h, fun s k h => by simp at h⟩
  · intro x hx; simp at hx

/-- what the walk enumerates is exactly what the reachable lists name (used by C03 / C04 as well) -/
theorem C08_enumeration_is_reachable_lists (B fuel : Nat) (fs : FS) (d : Dir) (hwf : WF fs) (hdep : DepthOK fs B)
    (hle : d.length ≤ B) (hf : B < fuel + d.length) (sh : Shard) :
    sh ∈ shardsOf fuel fs d ↔ ∃ x, Reaches fs d x ∧ sh ∈ filesAt fs x :=
  mem_shardsOf B fuel fs d hwf hdep hle hf sh

/-- `Dataset.create` on an existing dataset is refused and changes nothing -/
theorem C08_create_refused (ds : DS) : (create true ds).1 = none ∧ (create true ds).2 = ds := by
  simp [create]

/-- Non-vacuity: two sessions (root of split 0, then a nested sub-directory of split 0 and the root of split 1);
afterwards split 0 enumerates the three shards written to it, split 1 its own one. -/
example :
    let H : SList → Nat := fun l => l.n + 17 * l.files.length
    let ds := [[([0], [⟨1, 2, [], 0, 0⟩])], [([0, 7, 8], [⟨2, 1, [], 0, 0⟩, ⟨3, 2, [], 0, 0⟩]), ([1], [⟨4, 5, [], 0, 0⟩])]].foldl
      (session H 5) { fs := fun _ => none, splits := fun _ => none }
    ((shardsOf 5 ds.fs [0]).map (·.file), (shardsOf 5 ds.fs [1]).map (·.file)) = ([1, 2, 3], [4]) := by decide

end Sedpack.Tree
