import SedpackProofs.TreeSession
/-!
# C08 — Continued writing is append-only

Refinement view: what a reader can reach from a split is the set of list directories reachable
through child records, and in each the list's shard files.  A session (any kind) only *appends*
shard entries to the lists it writes into, never changes any other list's shard files, keeps
every previously reachable directory reachable and makes the directories it wrote into reachable.
-/
namespace Sedpack.Tree

/-- the merge never changes any list's shard files, in any directory -/
theorem C08_merge_keeps_files (H : SList → Nat) (B fuel : Nat) (fs : FS) (d : Dir) (us : List Kid)
    (hfuel : B < fuel + d.length) (hpre : Pre B fs d us) (x : Dir) :
    filesAt (merge H fuel fs d us).1 x = filesAt fs x :=
  (merge_spec H B fuel fs d us hfuel hpre).files x

/-- the merge keeps every reachable directory reachable and reaches every update -/
theorem C08_merge_keeps_reachable (H : SList → Nat) (B fuel : Nat) (fs : FS) (d : Dir) (us : List Kid)
    (hfuel : B < fuel + d.length) (hpre : Pre B fs d us) :
    (∀ x, Reaches fs d x → Reaches (merge H fuel fs d us).1 d x) ∧
    (∀ u ∈ us, Reaches (merge H fuel fs d us).1 d u.dir) :=
  ⟨(merge_spec H B fuel fs d us hfuel hpre).reachOld, (merge_spec H B fuel fs d us hfuel hpre).reachUps⟩

/-- **Append-only sessions.** After any session, for every split: every directory that was
reachable is still reachable, and in every directory the old shard entries are a prefix of the new
ones (same entries, same order, new ones appended). -/
theorem C08_session_append_only (H : SList → Nat) (B fuel : Nat) (hfuel : B < fuel + 1) (hB : 1 ≤ B) (ds : DS)
    (se : Session) (hse : ∀ w ∈ se, w.1 ≠ [] ∧ w.1.length ≤ B) (hg : Good H B ds) :
    (∀ s x, Reaches ds.fs [s] x → Reaches (session H fuel ds se).fs [s] x) ∧
    (∀ x, filesAt ds.fs x <+: filesAt (session H fuel ds se).fs x) := by
  obtain ⟨_, _, hreach, hfiles⟩ := session_good H B fuel hfuel hB ds se hse hg
  obtain ⟨_, _, _, hpre⟩ := applyWrites_props B se ds.fs hg.wf hg.depth
  refine ⟨fun s x hx => hreach s x (reaches_of_same_kids (applyWrites_kids se ds.fs) hx), fun x => ?_⟩
  rw [hfiles x]; exact hpre x

/-- directories a session did not write into keep exactly their shard entries -/
theorem C08_untouched_dirs_unchanged (H : SList → Nat) (B fuel : Nat) (hfuel : B < fuel + 1) (hB : 1 ≤ B) (ds : DS)
    (se : Session) (hse : ∀ w ∈ se, w.1 ≠ [] ∧ w.1.length ≤ B) (hg : Good H B ds) (x : Dir)
    (hx : ∀ w ∈ se, w.1 ≠ x) : filesAt (session H fuel ds se).fs x = filesAt ds.fs x := by
  obtain ⟨_, _, _, hfiles⟩ := session_good H B fuel hfuel hB ds se hse hg
  obtain ⟨_, _, hsame, _⟩ := applyWrites_props B se ds.fs hg.wf hg.depth
  rw [hfiles x]; simp only [filesAt, hsame x hx]

/-- `Dataset.create` on an existing dataset is refused and changes nothing -/
theorem C08_create_refused (ds : DS) : (create true ds).1 = none ∧ (create true ds).2 = ds := by
  simp [create]

end Sedpack.Tree
