import SedpackProps.SrcGen
/-!
# C19 — the path list is cycled, then shuffled, in the current source

`C19_unshuffled_stream` / `C19_cycle_periodic` model `itertools.cycle` over the path list followed by the shard-level shuffle
buffer.  Re-checked against the source text extracted on this run.
-/
namespace Sedpack.Src

/-- `as_numpy_common`: the list comes from `shard_paths_dataset`, is cycled (`itertools.cycle`, constant stack and memory per
epoch) under the first `if`, and only then shuffled; nothing is stored on `self` -/
theorem C19_src_cycle_then_shuffle :
    (allBefore asNumpyCommon "shard_paths_dataset" "cycle" && allBefore asNumpyCommon "cycle" "shuffle_buffer"
      && occurrences asNumpyCommon "cycle" == 1 && !hasSelfStore asNumpyCommon && !asNumpyCommon.contains "yieldfrom"
      && !asNumpyCommon.contains "yield") = true := by decide +kernel

end Sedpack.Src
