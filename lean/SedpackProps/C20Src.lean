import SedpackProps.SrcGen
/-!
# C20 — a dataset handle pins its root at creation, in the current source

Relocation (`C20.lean`: every path in the metadata is relative to the root) and containment (C17) both assume that the root a
handle uses is fixed when the handle is created.  Re-checked against the source text extracted on this run: `DatasetBase.__init__`
resolves the path *after* and *outside* the `try` around `expanduser()`, so a failing expansion cannot skip it.
-/
namespace Sedpack.Src

/-- `expanduser` is attempted inside the `try`; `resolve` comes after the `try` statement has ended -/
theorem C20_src_resolve_outside_try :
    (allBefore datasetBaseInit "try" "expanduser" && allBefore datasetBaseInit "expanduser" "except"
      && allBefore datasetBaseInit "endtry" "resolve" && occurrences datasetBaseInit "endtry" == 1) = true := by decide +kernel
/-- the last value stored into `path` is the resolved one -/
theorem C20_src_resolved_path_is_stored :
    ((last datasetBaseInit "resolve").map (· + 1) == last datasetBaseInit "set:path") = true := by decide +kernel

end Sedpack.Src
