import SedpackProps.SrcGen
/-!
# C02 — a pass is computed from the description as it is now, in the current source

`C02_end_to_end` speaks about one pass over "the shards of the split": the list the walk enumerates when the pass starts.  That is
the code's behaviour only if the reading side keeps nothing on the dataset object between passes (no cached path list, no
remembered selection).  Re-checked against the source text extracted on this run.
-/
namespace Sedpack.Src

/-- none of the reading-side functions stores anything on `self` -/
theorem C02_src_readers_keep_no_state :
    (hasSelfStore shardInfoIterator || hasSelfStore shardInfoWalk || hasSelfStore shardPathsDataset || hasSelfStore asNumpyCommon || hasSelfStore asNumpyIterator
      || hasSelfStore asNumpyIteratorConcurrent || hasSelfStore asNumpyIteratorAsync || hasSelfStore asNumpyIteratorRust
      || hasSelfStore asTfdataset) = false := by decide +kernel
/-- every pass starts by enumerating the shard infos again: the path stream begins with `shard_paths_dataset`, which begins with
`shard_info_iterator` -/
theorem C02_src_pass_starts_from_the_description :
    (asNumpyCommon.head? == some "shard_paths_dataset" && shardPathsDataset.head? == some "shard_info_iterator"
      && asTfdataset.head? == some "shard_paths_dataset"
      && asNumpyIterator.head? == some "as_numpy_common" && asNumpyIteratorConcurrent.head? == some "as_numpy_common"
      && asNumpyIteratorAsync.head? == some "as_numpy_common") = true := by decide +kernel

/-- the recursive walk reads each list file when it reaches it (`read_text` before the list is parsed and its entries are yielded)
and yields the list's own shards before it descends into the children -/
theorem C02_src_walk_reads_then_yields :
    (allBefore shardInfoWalk "read_text" "model_validate_json" && allBefore shardInfoWalk "model_validate_json" "yieldfrom"
      && occurrences shardInfoWalk "read_text" == 1) = true := by decide +kernel

end Sedpack.Src
