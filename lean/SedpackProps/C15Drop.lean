import SedpackProps.C15
/-!
# C15 — what has been returned at *any* point, in particular at an early drop

`C15_full_pass_is_the_input` speaks about complete passes.  The property also quantifies over every
early-drop position and every relative timing of the reader threads; the two theorems below state
that part in terms of input indices (`idx m (a, b) = a * m + b`, the position of item `(a, b)` in
the input order):

* in every reachable state of M-PMAP — before a drop, after a drop, at the end — what `next()` has
  returned so far is the first `out.length` items of the input, in order (no skip, no reorder, no
  duplicate, whatever the workers' finishing order);
* two executions under *different* schedules (and different drop positions) that returned the same
  number of items returned the same items: the output is a function of the input alone.
-/
namespace Sedpack.PMap

/-- **Every prefix is the input's prefix** — at any moment, under any interleaving, dropped or not. -/
theorem C15_any_prefix_is_input_prefix (c : Cfg) (g : Good c) (s : St) (h : Reach c s) (hm : 0 < c.m) :
    s.out.map (idx c.m) = List.range s.out.length := by
  have hi := inv_reach c g.nq g.nr s h
  have hnow : s.now ≤ c.m := Nat.le_of_lt (hi.now hm)
  have h1 := enumTo_idx c.m s.q s.now hnow
  rw [← hi.out] at h1
  have h2 : s.out.length = s.q * c.m + s.now := by
    have := congrArg List.length h1
    simpa using this
  rw [h1, h2]

/-- the number of returned items determines the consumer's position -/
theorem out_length_position (c : Cfg) (g : Good c) (s : St) (h : Reach c s) (hm : 0 < c.m) :
    s.q = s.out.length / c.m ∧ s.now = s.out.length % c.m := by
  have hi := inv_reach c g.nq g.nr s h
  have hnow : s.now < c.m := hi.now hm
  have h1 := enumTo_idx c.m s.q s.now (Nat.le_of_lt hnow)
  rw [← hi.out] at h1
  have h2 : s.out.length = c.m * s.q + s.now := by
    have := congrArg List.length h1
    rw [Nat.mul_comm]
    simpa using this
  constructor
  · rw [h2, Nat.mul_add_div hm, Nat.div_eq_of_lt hnow, Nat.add_zero]
  · rw [h2, Nat.mul_add_mod, Nat.mod_eq_of_lt hnow]

/-- **Schedule independence.** Two executions of the same reader configuration, under any two interleavings of the
worker threads and any two drop positions, that returned equally many items returned the same items in the same order. -/
theorem C15_schedule_independent (c : Cfg) (g : Good c) (s₁ s₂ : St) (h₁ : Reach c s₁) (h₂ : Reach c s₂) (hm : 0 < c.m)
    (hl : s₁.out.length = s₂.out.length) : s₁.out = s₂.out := by
  obtain ⟨q1, n1⟩ := out_length_position c g s₁ h₁ hm
  obtain ⟨q2, n2⟩ := out_length_position c g s₂ h₂ hm
  rw [C15_output_in_input_order c g s₁ h₁, C15_output_in_input_order c g s₂ h₂, q1, n1, q2, n2, hl]

/-- of two executions the one that returned fewer items returned a prefix of the other's output -/
theorem C15_shorter_run_is_prefix (c : Cfg) (g : Good c) (s₁ s₂ : St) (h₁ : Reach c s₁) (h₂ : Reach c s₂) (hm : 0 < c.m)
    (hl : s₁.out.length ≤ s₂.out.length) : (s₂.out.take s₁.out.length).map (idx c.m) = s₁.out.map (idx c.m) := by
  rw [List.map_take, C15_any_prefix_is_input_prefix c g s₁ h₁ hm, C15_any_prefix_is_input_prefix c g s₂ h₂ hm,
    List.take_range, Nat.min_eq_left hl]

theorem nodup_of_map_nodup {α β} (f : α → β) : ∀ l : List α, (l.map f).Nodup → l.Nodup
  | [], _ => List.nodup_nil
  | a :: l, h => by
    rw [List.map_cons, List.nodup_cons] at h
    rw [List.nodup_cons]
    exact ⟨fun ha => h.1 (List.mem_map_of_mem ha), nodup_of_map_nodup f l h.2⟩

/-- **Never twice**: at no moment of any execution has `next()` returned the same item two times -/
theorem C15_never_twice (c : Cfg) (g : Good c) (s : St) (h : Reach c s) (hm : 0 < c.m) : s.out.Nodup := by
  have h1 := C15_any_prefix_is_input_prefix c g s h hm
  have h2 : (s.out.map (idx c.m)).Nodup := h1 ▸ List.nodup_range
  exact nodup_of_map_nodup _ _ h2

/-- non-vacuity: a state reached after an out-of-order finish and a drop in the middle of the second round -/
example : (accepts c23 (init c23) [.wRecv 1, .wSend 1, .wRecv 0, .wSend 0, .cNext, .cNext, .wRecv 0, .wSend 0, .cNext]).map
    (fun s => s.out.map (idx 2)) = some [0, 1, 2] := by decide

end Sedpack.PMap
