import SedpackProofs.Pipe
/-!
# C02 — Exactly-once delivery: one pass yields precisely the split's examples

Stage theorems (every random state / schedule is a run of the corresponding monitor) and their
composition into the public interfaces.  `paths` is the selected shard list of the split in
enumeration order (C12 / M-TREE say which shards those are), `ex p` the examples stored in shard
`p`, `g` the caller's transformation; a yielded list is "exactly the split's examples, `g`
applied once to each" iff it is a permutation of `(paths.flatMap ex).map g`.
Quantifiers: every shuffle size, every `file_parallelism ≥ 1`, every shard layout, every run.
`tf.data` and the Rust reader's scheduling are specified externals (C15 covers the Rust protocol).
-/
namespace Sedpack.Pipe
open Sedpack.Iter

/-- shuffle buffer: every complete run yields a permutation of its source -/
theorem C02_shuffle_buffer_perm (b : Nat) (xs out : List Nat) (h : SBRun b xs out) : out.Perm xs :=
  SBRun_perm b xs out h

/-- round robin: every complete run yields a permutation of the concatenated inner iterables -/
theorem C02_round_robin_perm (b : Nat) (ls : List (List Nat)) (out : List Nat) (h : RRRun b ls out) :
    out.Perm ls.flatten := RRRun_perm b ls out h

/-- round robin cannot finish before it has seen the end of the outer stream (no inner iterable
is left unopened), for every buffer size `b ≥ 1` -/
theorem C02_round_robin_opens_all (b : Nat) (hb : 0 < b) (tr : List RRLbl) (s : RR)
    (ha : RR.accepts (RR.init b) tr = some s) (hf : s.finished = true) : s.outerDone = true := by
  have hr := rr_reach_of_accepts b tr _ s RRReach.init ha
  have hi := rr_inv_reach b s hr
  have hst : s.filling = false ∧ s.refill = false ∧ s.open_ = [] := by
    clear hi
    induction hr with
    | init => simp [RR.init] at hf
    | @step s0 s1 l hr0 hs ih =>
      cases l <;> simp only [RR.step] at hs
      all_goals (repeat' split at hs) <;> simp at hs <;> (try subst hs) <;> simp_all
  exact hi.1.allOpened (by rw [hi.2]; exact hb) hst.1 hst.2.1 hst.2.2

/-- lazy pool: the results of a normally ended pass are one per input -/
theorem C02_pool_perm (T n : Nat) (order : List Nat) (h : PoolRun T n order) : order.Perm (List.range n) :=
  PoolRun_perm T n order h

/-- the unshuffled concurrent path: concatenating the batches gives back the shard list -/
theorem C02_batches_concat (T : Nat) (hT : 0 < T) (ps : List α) :
    (batches T (ps.length + 1) ps).flatten = ps := batches_flatten T hT _ ps (by omega)

theorem paths_perm (shuffle : Nat) (paths ps : List Nat) (h : PathsRun shuffle paths ps) : ps.Perm paths := by
  unfold PathsRun at h
  split at h
  · rw [h]
  · exact SBRun_perm _ _ _ h

/-- `as_numpy_iterator`, one pass: exactly the examples of the selected shards, `g` once each -/
theorem C02_exactly_once_sync (shuffle : Nat) (paths : List Nat) (ex : Nat → List Nat) (g : Nat → Nat)
    (out : List Nat) (h : SyncRun shuffle paths ex g out) : out.Perm ((paths.flatMap ex).map g) := by
  obtain ⟨ps, hps, hout⟩ := h
  have hp := ((paths_perm shuffle paths ps hps).flatMap_right ex).map g
  simp only at hout
  split at hout
  · rw [hout]; exact hp
  · exact (SBRun_perm _ _ _ hout).trans hp

theorem range_flatMap_getD (ps : List Nat) (f : Nat → List Nat) :
    (List.range ps.length).flatMap (fun i => f (ps.getD i 0)) = ps.flatMap f := by
  have : (List.range ps.length).map (fun i => ps.getD i 0) = ps := by
    apply List.ext_getElem
    · simp
    · intro i h1 h2; simp at h1; simp [List.getD, h1]
  conv => rhs; rw [← this]
  rw [List.flatMap_map]

/-- `as_numpy_iterator_concurrent`, one pass, every `file_parallelism ≥ 1`, every schedule -/
theorem C02_exactly_once_concurrent (shuffle T : Nat) (hT : 0 < T) (paths : List Nat) (ex : Nat → List Nat)
    (g : Nat → Nat) (out : List Nat) (h : ConcurrentRun shuffle T paths ex g out) :
    out.Perm ((paths.flatMap ex).map g) := by
  obtain ⟨ps, hps, hout⟩ := h
  have hp := ((paths_perm shuffle paths ps hps).flatMap_right ex).map g
  have hmap : ∀ l : List Nat, l.flatMap (fun p => (ex p).map g) = (l.flatMap ex).map g := by
    intro l; rw [List.map_flatMap]
  split at hout
  · rw [hout, flatMap_batches, C02_batches_concat T hT ps, hmap]; exact hp
  · obtain ⟨order, hpool, hrr⟩ := hout
    have h1 := RRRun_perm _ _ _ hrr
    have h2 := PoolRun_perm _ _ _ hpool
    have h3 : (order.map (fun i => (ex (ps.getD i 0)).map g)).flatten.Perm
        ((List.range ps.length).flatMap (fun i => (ex (ps.getD i 0)).map g)) := by
      rw [← List.flatMap_def]; exact h2.flatMap_right _
    rw [range_flatMap_getD ps (fun p => (ex p).map g), hmap] at h3
    exact (h1.trans h3).trans hp

/-- `as_numpy_iterator_async`, one pass -/
theorem C02_exactly_once_async (shuffle T : Nat) (paths : List Nat) (ex : Nat → List Nat)
    (g : Nat → Nat) (out : List Nat) (h : AsyncRun shuffle T paths ex g out) :
    out.Perm ((paths.flatMap ex).map g) := by
  obtain ⟨ps, hps, mid, hmid, hout⟩ := h
  have hp := ((paths_perm shuffle paths ps hps).flatMap_right ex).map g
  rw [hout]
  split at hmid
  · rw [hmid]; exact hp
  · have := (RRRun_perm _ _ _ hmid).map g
    rw [← List.flatMap_def] at this
    exact this.trans hp

/-- Consequences spelled out: nothing missing, nothing duplicated, nothing foreign. -/
theorem C02_counts (out expected : List Nat) (h : out.Perm expected) (a : Nat) :
    out.count a = expected.count a ∧ out.length = expected.length := ⟨h.count_eq a, h.length_eq⟩

/-- Non-vacuity: a complete run of the shuffle buffer (`b = 2`, source `[1,2,3]`). -/
example : SBRun 2 [1, 2, 3] [2, 3, 1] :=
  ⟨[.pull (some 1), .pull (some 2), .pull (some 3), .yield 2, .pull none, .yield 3, .yield 1, .finish], _, rfl, rfl, rfl, rfl⟩

/-- Non-vacuity: round robin with `b = 1` over `[[1,2],[3]]`. -/
example : RRRun 1 [[1, 2], [3]] [1, 2, 3] :=
  ⟨[.openInner 0 [1, 2], .yield 0 1, .yield 0 2, .innerEnd 0, .openInner 1 [3], .yield 1 3, .innerEnd 1, .outerEnd, .finish],
   _, rfl, rfl, rfl, rfl, rfl⟩

end Sedpack.Pipe
