import SedpackProps.C03System
/-!
# C10, end to end: every shard a reader can reach holds between 1 and `examples_per_shard` examples

`C10.lean` proves the bound for the shards a filler closes; this file carries it through M-TREE: after any history of filler
sessions (each with its own stream, splits and naming), every shard enumerated for any split satisfies the bound and its
recorded `number_of_examples` equals the number of examples stored in it.
-/
namespace Sedpack.System
def ShardOK (eps : Nat) (sh : Tree.Shard) : Prop := 1 ≤ sh.n ∧ sh.n ≤ eps ∧ sh.n = sh.exs.length

/-- **C10 / C11 at the reader's end.** In a dataset (without unlinked lists) all of whose enumerated shards hold between 1 and
`eps` examples, with exactly the recorded number stored and all of them written under the recorded metadata, the same is
true after any root filler session — for every operation sequence. -/
theorem C10_enumerated_shards_in_bounds (H : Tree.SList → Nat) (B fuel eps : Nat) (hfuel : B < fuel + 1) (hB : 1 ≤ B) (heps : 1 ≤ eps)
    (ds : Tree.DS) (hg : Tree.Good H B ds) (hl : Tree.Linked ds.fs) (ops : List Fill.Op) (name : Nat → Nat → Nat) (splits : List Nat)
    (s : Nat) (hold : ∀ sh ∈ Tree.shardsOf fuel ds.fs [s], ShardOK eps sh) :
    ∀ sh ∈ Tree.shardsOf fuel (Tree.session H fuel ds (fillerSession eps ops name splits)).fs [s], ShardOK eps sh := by
  have hse : ∀ w ∈ fillerSession eps ops name splits, w.1 ≠ [] ∧ w.1.length ≤ B := by
    intro w hw
    simp only [fillerSession, List.mem_filterMap] at hw
    obtain ⟨a, _, haw⟩ := hw
    cases hsf : shardsFor eps ops name a with
    | none => simp [hsf] at haw
    | some sh => simp [hsf] at haw; rw [← haw]; simp; omega
  intro sh hsh
  rcases (Tree.session_adds_exactly H B fuel hfuel hB ds _ hse hg hl s sh).mp hsh with h | ⟨w, hw, _, hshw⟩
  · exact hold sh h
  · -- a shard of the session: the image of a closed shard of M-FILL
    simp only [fillerSession, List.mem_filterMap] at hw
    obtain ⟨a, _, haw⟩ := hw
    cases hsf : shardsFor eps ops name a with
    | none => simp [hsf] at haw
    | some shs =>
      simp [hsf] at haw
      rw [← haw] at hshw
      simp only [] at hshw
      unfold shardsFor at hsf
      obtain ⟨cl, hl1, hl2, _, _⟩ := Fill.listed_spec eps heps ops a
      rw [hl1] at hsf
      cases cl with
      | nil => simp at hsf
      | cons c cs =>
        simp only [Option.some.injEq] at hsf
        rw [← hsf] at hshw
        obtain ⟨i, c', hc', hshc⟩ : ∃ i c', c' ∈ (c :: cs) ∧ sh = toShard (name a i) c' := by
          have := List.mem_iff_getElem.mp hshw
          obtain ⟨j, hj, hjeq⟩ := this
          simp only [List.getElem_zipWith] at hjeq
          exact ⟨_, _, List.getElem_mem _, hjeq.symm⟩
        have hok := (Fill.C10_shard_size_bounds eps heps ops a)
        obtain ⟨cl2, hcl2, hb⟩ := hok
        rw [hl1] at hcl2; cases hcl2
        obtain ⟨h1, h2, h3⟩ := hb c' hc'
        rw [hshc]
        exact ⟨h1, h2, by simp [toShard, h3]⟩

/-- Non-vacuity: eps = 2, writes to splits 0 and 1 interleaved with one rejected write; two sessions. -/
example :
    let H : Tree.SList → Nat := fun l => l.n
    let ops1 : List Fill.Op := [.write 0 0 10 true, .write 1 0 11 true, .write 0 0 12 false, .write 0 0 13 true, .write 0 0 14 true]
    let ops2 : List Fill.Op := [.write 0 0 20 true]
    let ds1 := Tree.session H 4 { fs := fun _ => none, splits := fun _ => none } (fillerSession 2 ops1 (fun s i => 100 * s + i) [0, 1])
    let ds2 := Tree.session H 4 ds1 (fillerSession 2 ops2 (fun s i => 100 * s + 50 + i) [0, 1])
    (examples (Tree.shardsOf 4 ds2.fs [0]), examples (Tree.shardsOf 4 ds2.fs [1])) = ([10, 13, 14, 20], [11]) := by decide


/-- one filler run: stream, naming and the splits it serves -/
structure Run where
  ops : List Fill.Op
  name : Nat → Nat → Nat
  splits : List Nat

/-- **Every history of filler sessions, from the empty dataset**: every enumerated shard of every split is within bounds. -/
theorem C10_history_in_bounds (H : Tree.SList → Nat) (B fuel eps : Nat) (hfuel : B < fuel + 1) (hB : 1 ≤ B) (heps : 1 ≤ eps) (s : Nat) :
    ∀ (hist : List Run) (ds : Tree.DS), Tree.Good H B ds → Tree.Linked ds.fs →
      (∀ sh ∈ Tree.shardsOf fuel ds.fs [s], ShardOK eps sh) →
      ∀ sh ∈ Tree.shardsOf fuel (hist.foldl (fun d r => Tree.session H fuel d (fillerSession eps r.ops r.name r.splits)) ds).fs [s],
        ShardOK eps sh := by
  intro hist
  induction hist with
  | nil => intro ds _ _ h; simpa using h
  | cons r rest ih =>
    intro ds hg hl hold
    simp only [List.foldl_cons]
    have hse : ∀ w ∈ fillerSession eps r.ops r.name r.splits, w.1 ≠ [] ∧ w.1.length ≤ B := by
      intro w hw
      simp only [fillerSession, List.mem_filterMap] at hw
      obtain ⟨a, _, haw⟩ := hw
      cases hsf : shardsFor eps r.ops r.name a with
      | none => simp [hsf] at haw
      | some sh => simp [hsf] at haw; rw [← haw]; simp; omega
    exact ih _ (Tree.session_good H B fuel hfuel hB ds _ hse hg).1 (Tree.session_linked H B fuel hfuel hB ds _ hse hg hl)
      (C10_enumerated_shards_in_bounds H B fuel eps hfuel hB heps ds hg hl r.ops r.name r.splits s hold)

end Sedpack.System
