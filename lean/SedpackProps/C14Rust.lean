import SedpackProps.C15
import SedpackProofs.ParMapSum
/-!
# C14 for the Rust reader: read-ahead of `parallel_map`

`C15_one_outstanding` bounds every worker's pipeline; summed over the workers this is the read-ahead bound of the property:
the shard paths taken from the (possibly endless, `repeat=True`) input never exceed the examples' shards consumed plus
`file_parallelism`.  The harness measures exactly this quantity on the real `parallel_map` (items pulled from an instrumented
input iterator for `k` results and by the time the iterator is dropped) and replays the recorded channel operations on M-PMAP.
-/
namespace Sedpack.PMap
/-- **Total read-ahead of the Rust reader**: at every reachable state — whatever the interleaving, also after `drop` — the
number of items taken from the input iterator is at most the number of results returned plus the number of worker threads. -/
theorem C14_rust_total_read_ahead (c : Cfg) (g : Good c) (s : St) (h : Reach c s) :
    ((List.range c.m).map s.pipeLen).sum ≤ s.out.length + c.m := by
  have hi := inv_reach c g.nq g.nr s h
  have h1 : ((List.range c.m).map s.pipeLen).sum ≤ ((List.range c.m).map (fun w => s.q + (if w < s.now then 1 else 0) + 1)).sum := by
    apply sum_map_le
    intro w hw
    have hwm : w < c.m := by simpa using hw
    have hp := (hi.w w hwm).pipe
    have ho := (hi.w w hwm).out
    omega
  have h2 : ((List.range c.m).map (fun w => s.q + (if w < s.now then 1 else 0) + 1)).sum = c.m * s.q + min s.now c.m + c.m := by
    have : (fun w => s.q + (if w < s.now then 1 else 0) + 1) = fun w => (fun _ => s.q) w + ((fun w => if w < s.now then 1 else 0) w + (fun _ => 1) w) := by
      funext w; simp only []; omega
    rw [this]
    have hadd : ∀ (f g : Nat → Nat) (l : List Nat), (l.map (fun w => f w + g w)).sum = (l.map f).sum + (l.map g).sum := by
      intro f g l; induction l with
      | nil => simp
      | cons a as ih => simp only [List.map_cons, List.sum_cons, ih]; omega
    rw [hadd, hadd, sum_range_const, sum_range_const, sum_range_ite]; omega
  rw [hi.out, length_enumTo]
  have : c.m * s.q = s.q * c.m := Nat.mul_comm _ _
  have hmin : min s.now c.m ≤ s.now := Nat.min_le_left _ _
  omega
end Sedpack.PMap

namespace Sedpack.PMap
/-- Non-vacuity: two workers, three items; at the start both workers hold one item and nothing has been returned (the bound is
tight), after the first `next()` three items are out for one result. -/
example : ((List.range 2).map (init { m := 2, nq := 1, nr := 1 }).pipeLen).sum = 2 := by decide
example : ((accepts { m := 2, nq := 1, nr := 1 } (init { m := 2, nq := 1, nr := 1 }) [.wRecv 0, .wSend 0, .cNext]).map
    (fun s => (((List.range 2).map s.pipeLen).sum, s.out.length))) = some (3, 1) := by decide
end Sedpack.PMap
