import SedpackProps.C03Rust
/-!
# C15, as stated: the Rust reader equals the Python reader

Composition of M-PMAP (a full pass of `parallel_map`, `C15_full_pass_is_the_input`) with the pipeline model of the Python
interfaces (`C03.lean`).
-/
namespace Sedpack.Pipe

/-- **C15, as stated**: the Rust reader equals the Python reader — same examples, same order — for every thread count of either
and every timing of the worker threads -/
theorem C15_rust_equals_python (T : Nat) (hT : 0 < T) (paths : List Nat) (ex : Nat → List Nat) (o1 o2 o3 : List Nat)
    (h1 : RustRun 0 paths ex o1) (h2 : SyncRun 0 paths ex id o2) (h3 : ConcurrentRun 0 T paths ex id o3) : o1 = o2 ∧ o1 = o3 := by
  rw [C03_rust_unshuffled_eq _ _ _ h1, C03_sync_unshuffled_eq _ _ _ _ h2, C03_concurrent_unshuffled_eq T hT _ _ _ _ h3]
  simp

end Sedpack.Pipe
