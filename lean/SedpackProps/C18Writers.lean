import SedpackProofs.Writer
/-!
# C18 — writer level: a rejected `write` leaves nothing behind, an accepted one is decodable

M-FILL (`SedpackProps/C18.lean`) assumes that a shard writer either takes an example or rejects it
without a trace.  Here that is *derived* from the shape of the three writers (M-WRITER): for every
declaration, every sequence of examples with missing keys, wrong shapes and values the format's
encoder refuses at any attribute position, what a reader decodes from the shard is exactly the
sequence of accepted examples.
-/
namespace Sedpack.Writer

/-- npz, one call: a rejected example leaves every column as it was; an accepted one extends every column. -/
theorem C18_npz_write_atomic (k : Nat) (acc : List (List Nat)) (ex : Ex) (hk : ex.length = k) :
    ((npzWrite (colsOf k acc) ex).2 ≠ .ok → (npzWrite (colsOf k acc) ex).1 = colsOf k acc) ∧
    ((npzWrite (colsOf k acc) ex).2 = .ok → (npzWrite (colsOf k acc) ex).1 = colsOf k (acc ++ [payloads ex])) :=
  ⟨npzWrite_error _ ex, npzWrite_ok k acc ex hk⟩

theorem npz_run (attrs : Attrs) (k : Nat) : ∀ (exs : List Ex) (acc : List (List Nat)), (∀ ex ∈ exs, ex.length = k) →
    (runW npzWrite attrs (colsOf k acc) exs).1 = colsOf k (acc ++ accepted exs (runW npzWrite attrs (colsOf k acc) exs).2) := by
  intro exs
  induction exs with
  | nil => intro acc _; simp [runW, accepted]
  | cons ex rest ih =>
    intro acc hw
    have hk := hw ex List.mem_cons_self
    have hrest : ∀ e ∈ rest, e.length = k := fun e he => hw e (List.mem_cons_of_mem _ he)
    simp only [runW]
    unfold write
    split
    · rename_i e he
      have hne := baseCheck_ne_ok attrs ex 0 e he
      rw [ih acc hrest]
      cases e <;> simp_all [accepted]
    · by_cases h : (npzWrite (colsOf k acc) ex).2 = .ok
      · rw [npzWrite_ok k acc ex hk h, ih _ hrest]
        simp [accepted, h, List.append_assoc]
      · rw [npzWrite_error _ ex h, ih acc hrest]
        cases hh : (npzWrite (colsOf k acc) ex).2 <;> simp_all [accepted]

theorem accepted_width (k : Nat) : ∀ (exs : List Ex) (outs : List Out), (∀ ex ∈ exs, ex.length = k) → ∀ r ∈ accepted exs outs, r.length = k := by
  intro exs
  induction exs with
  | nil => intro outs _ r hr; cases outs <;> simp [accepted] at hr
  | cons ex rest ih =>
    intro outs hw r hr
    cases outs with
    | nil => simp [accepted] at hr
    | cons o os =>
      have hrest : ∀ e ∈ rest, e.length = k := fun e he => hw e (List.mem_cons_of_mem _ he)
      cases o <;> simp only [accepted, List.mem_cons] at hr
      · rcases hr with h | h
        · rw [h, payloads_length]; exact hw ex List.mem_cons_self
        · exact ih os hrest r h
      all_goals exact ih os hrest r hr

/-- **npz.** Whatever sequence of examples is offered to a fresh shard writer (`k ≥ 1` declared attributes), the shard is
decodable and a reader gets back exactly the accepted examples, in order. -/
theorem C18_npz_decodes_accepted (attrs : Attrs) (k : Nat) (hk : 0 < k) (exs : List Ex) (hw : ∀ ex ∈ exs, ex.length = k) :
    npzDecode (runW npzWrite attrs (colsOf k []) exs).1 = some (accepted exs (runW npzWrite attrs (colsOf k []) exs).2) := by
  rw [npz_run attrs k exs [] hw]
  simp only [List.nil_append, npzDecode, rect_colsOf, if_true]
  rw [rows_colsOf k hk _ (accepted_width k exs _ hw)]

/-- **FlatBuffers.** The examples recorded in the builder are exactly the accepted ones; a rejected example leaves only
unreferenced bytes (`garbage`) behind. -/
theorem C18_fb_decodes_accepted (attrs : Attrs) (exs : List Ex) (s : FbSt) :
    (runW fbWrite attrs s exs).1.examples = s.examples ++ accepted exs (runW fbWrite attrs s exs).2 :=
  runW_view fbWrite (·.examples) attrs
    (fun s ex h => by rw [fbWrite_examples, if_pos h])
    (fun s ex h => by rw [fbWrite_examples, if_neg h]) exs s

/-- **TFRecord.** The records written are exactly the accepted examples. -/
theorem C18_tfrec_decodes_accepted (attrs : Attrs) (exs : List Ex) (s : TfSt) :
    (runW tfWrite attrs s exs).1.records = s.records ++ accepted exs (runW tfWrite attrs s exs).2 :=
  runW_view tfWrite (·.records) attrs
    (fun s ex h => by rw [(tfWrite_spec s ex).1 h])
    (fun s ex h => by rw [(tfWrite_spec s ex).2 h]) exs s

/-- … and the shard file exists only if some example was accepted: no orphan file for a shard that stays empty. -/
theorem C18_tfrec_no_orphan_file (attrs : Attrs) : ∀ (exs : List Ex) (s : TfSt), (s.opened = true → s.records ≠ []) →
    ((runW tfWrite attrs s exs).1.opened = true → (runW tfWrite attrs s exs).1.records ≠ []) := by
  intro exs
  induction exs with
  | nil => intro s h; simpa [runW] using h
  | cons ex rest ih =>
    intro s h
    simp only [runW]
    apply ih
    unfold write
    split
    · exact h
    · by_cases hok : (tfWrite s ex).2 = .ok
      · rw [(tfWrite_spec s ex).1 hok]; intro _; simp
      · rw [(tfWrite_spec s ex).2 hok]; exact h

/-! ## Witnesses for the pinned writers -/

/-- D5b: the pinned npz `_write` appended column by column: an example whose second key is missing extends the first
column only, and the shard can no longer be decoded. -/
theorem C18_npz_pinned_ragged :
    let r := npzWritePinned (colsOf 2 [[1, 2]]) [some ⟨true, true, 7⟩, none] 0
    r.2 = .keyError 1 ∧ r.1 = [[1, 7], [2]] ∧ npzDecode r.1 = none ∧
    (npzWrite (colsOf 2 [[1, 2]]) [some ⟨true, true, 7⟩, none]).1 = colsOf 2 [[1, 2]] := by decide

/-- D4b: the pinned TFRecord `_write` created the file before building the record: a rejected first example leaves an
empty shard file that no list names. -/
theorem C18_tfrec_pinned_orphan :
    (tfWritePinned ⟨false, []⟩ [some ⟨true, false, 7⟩]) = (⟨true, []⟩, .encError 0) ∧
    (tfWrite ⟨false, []⟩ [some ⟨true, false, 7⟩]) = (⟨false, []⟩, .encError 0) := by decide

/-- Non-vacuity: three attributes (the middle one of variable size), five offered examples — accepted, key missing,
wrong shape, encoder refusal at the last attribute, accepted. -/
example :
    let exs : List Ex := [[some ⟨true, true, 1⟩, some ⟨true, true, 2⟩, some ⟨true, true, 3⟩],
      [some ⟨true, true, 4⟩, none, some ⟨true, true, 6⟩], [some ⟨false, true, 7⟩, some ⟨true, true, 8⟩, some ⟨true, true, 9⟩],
      [some ⟨true, true, 10⟩, some ⟨true, true, 11⟩, some ⟨true, false, 12⟩], [some ⟨true, true, 13⟩, some ⟨false, true, 14⟩, some ⟨true, true, 15⟩]]
    (runW fbWrite [false, true, false] ⟨0, []⟩ exs) = (⟨3, [[1, 2, 3], [13, 14, 15]]⟩, [.ok, .keyError 1, .shapeError 0, .encError 2, .ok]) ∧
    npzDecode (runW npzWrite [false, true, false] (colsOf 3 []) exs).1 = some [[1, 2, 3], [10, 11, 12], [13, 14, 15]] := by decide

end Sedpack.Writer

namespace Sedpack.Writer

/-- **The verdict on an example depends on the example alone** — not on what the shard already holds, not on earlier rejected
calls: this is what entitles M-FILL to treat the writer as an oracle `ok : Bool` per `write_example` call (the seeded changes
C01_g / C18_e / C18_g / C18_h are exactly writers whose verdict or effect came to depend on earlier calls). -/
theorem C18_verdict_depends_on_the_example_only (attrs : Attrs) (ex : Ex) :
    (∀ s s' : NpzSt, (write npzWrite attrs s ex).2 = (write npzWrite attrs s' ex).2) ∧
    (∀ s s' : FbSt, (write fbWrite attrs s ex).2 = (write fbWrite attrs s' ex).2) ∧
    (∀ s s' : TfSt, (write tfWrite attrs s ex).2 = (write tfWrite attrs s' ex).2) := by
  refine ⟨?_, ?_, ?_⟩
  · intro s s'; simp only [write]; split <;> simp only [npzWrite] <;> (try rfl); split <;> rfl
  · intro s s'; simp only [write]; split <;> simp only [fbWrite] <;> (try rfl); split <;> rfl
  · intro s s'; simp only [write]; split <;> simp only [tfWrite] <;> (try rfl); split <;> (try rfl); split <;> rfl

/-- … and a rejected call leaves what a reader will decode unchanged, in every format (the buffer of npz, the recorded
examples of FlatBuffers, the records and the existence of the TFRecord file) -/
theorem C18_rejected_call_changes_nothing_decodable (attrs : Attrs) (ex : Ex) :
    (∀ s : NpzSt, (write npzWrite attrs s ex).2 ≠ .ok → (write npzWrite attrs s ex).1 = s) ∧
    (∀ s : FbSt, (write fbWrite attrs s ex).2 ≠ .ok → (write fbWrite attrs s ex).1.examples = s.examples) ∧
    (∀ s : TfSt, (write tfWrite attrs s ex).2 ≠ .ok → (write tfWrite attrs s ex).1 = s) := by
  refine ⟨?_, ?_, ?_⟩
  · intro s h; simp only [write] at h ⊢; split <;> (try rfl)
    rename_i hb; simp only [hb] at h
    simp only [npzWrite] at h ⊢; split <;> (try rfl)
    rename_i hm; simp [hm] at h
  · intro s h; simp only [write] at h ⊢; split <;> (try rfl)
    rename_i hb; simp only [hb] at h
    simp only [fbWrite] at h ⊢; split <;> (try rfl)
    rename_i hm; simp [hm] at h
  · intro s h
    simp only [write] at h ⊢
    cases hb : baseCheck attrs ex 0 with
    | some e => simp [hb]
    | none =>
      simp only [hb, tfWrite] at h ⊢
      cases hm : firstMissing ex 0 with
      | some j => simp [hm]
      | none =>
        simp only [hm] at h ⊢
        cases ht : tfBuild ex 0 with
        | some e => simp [ht]
        | none => simp [ht] at h

end Sedpack.Writer
