import SedpackProps.SrcGen
/-!
# C09 — every writer gets a fresh directory of its own, and every writer's infos are merged, in the current source

`C09_interleaving_eq_sequential` rests on the writers' directories being pairwise different and on the parent merging what *every*
filler brings back.  Re-checked against the source text extracted on this run for `write_multiprocessing`: the directory names
come from `uuid4` (one call inside the per-writer comprehension, before the fillers are built — not from the process id, a
counter, the core count or a clock), the infos of the returned fillers are collected (`get_updated_infos`, `extend`) without any
comparison in between, and one `write_config` follows, then the optional consistency check.
-/
namespace Sedpack.Src

/-- fresh random names, then the fillers, then the pool / the sequential map -/
theorem C09_src_fresh_directories :
    (occurrences writeMultiprocessing "uuid4" == 1 && allBefore writeMultiprocessing "uuid4" "DatasetFiller"
      && allBefore writeMultiprocessing "DatasetFiller" "map" && allBefore writeMultiprocessing "DatasetFiller" "Pool"
      && !writeMultiprocessing.contains "getpid" && !writeMultiprocessing.contains "cpu_count" && !writeMultiprocessing.contains "sched_getaffinity"
      && !writeMultiprocessing.contains "time" && !writeMultiprocessing.contains "time_ns") = true := by decide +kernel
/-- what every filler brings back is collected — nothing is compared or filtered between the pool's results and the merge — and
merged by one `write_config`; the consistency check comes last -/
theorem C09_src_all_infos_merged :
    (allBefore writeMultiprocessing "imap" "get_updated_infos" && allBefore writeMultiprocessing "get_updated_infos" "extend"
      && allBefore writeMultiprocessing "extend" "write_config" && allBefore writeMultiprocessing "write_config" "check"
      && occurrences writeMultiprocessing "write_config" == 1
      && (match first writeMultiprocessing "imap", first writeMultiprocessing "write_config" with
          | some i, some j => !hasCmp ((writeMultiprocessing.take j).drop i)
          | _, _ => false)) = true := by decide +kernel

end Sedpack.Src
