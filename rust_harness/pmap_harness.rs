// Integration test dropped into a scratch copy of /repo/rust/tests by harness/checks/c15.py.
// Drives `parallel_map` directly: item-dependent delays (out-of-order completion), a slow
// consumer, early drops at every position.  Prints one JSON line per case on stdout
// (`cargo test -- --nocapture`); the Python side compares with M-PMAP and the oracle.
use sedpack_rs::parallel_map::{parallel_map, verif};

// The order of channel operations recorded by the SEDPACK_VERIF hook since the last call (the Python side sets
// SEDPACK_VERIF=1 for this test binary), as "r0 s0 n0 d ..." for replay on M-PMAP.
fn trace_line(kind: &str, n: u64, threads: usize, k: usize) {
    let tr: Vec<String> = verif::take().iter().map(|(c, w)| format!("{}{}", c, w)).collect();
    println!("PMAPTRACE {{\"kind\":\"{}\",\"n\":{},\"threads\":{},\"k\":{},\"hook\":{},\"trace\":\"{}\"}}", kind, n, threads, k, verif::enabled(), tr.join(" "));
}

fn quick(x: u64) -> u64 { x * 10 }

// the mapped function panics on item BOOM (a shard that cannot be read)
static BOOM: std::sync::atomic::AtomicU64 = std::sync::atomic::AtomicU64::new(u64::MAX);
fn boom(x: u64) -> u64 {
    if x == BOOM.load(std::sync::atomic::Ordering::SeqCst) { panic!("unreadable item {}", x); }
    std::thread::sleep(std::time::Duration::from_millis((x % 3) * 2));
    x * 10
}

// how many items parallel_map has pulled from its input iterator (read-ahead is bounded by consumed + threads, also at drop)
static PULLED: std::sync::atomic::AtomicUsize = std::sync::atomic::AtomicUsize::new(0);

fn slow_first(x: u64) -> u64 {
    // the first worker is the slowest: everybody else runs ahead as far as the protocol lets them
    if x % 3 == 0 { std::thread::sleep(std::time::Duration::from_millis(6)); }
    x * 10
}

fn work(x: u64) -> u64 {
    // later items of a round finish first: completion order differs from input order
    let d = (7 - (x % 7)) * 2;
    std::thread::sleep(std::time::Duration::from_millis(d));
    x * 10
}

// one straggler: item STRAGGLER takes 0.7 s (a cold disk, one huge shard), everything else is instantaneous
static STRAGGLER: std::sync::atomic::AtomicU64 = std::sync::atomic::AtomicU64::new(u64::MAX);
fn straggler(x: u64) -> u64 {
    if x == STRAGGLER.load(std::sync::atomic::Ordering::SeqCst) { std::thread::sleep(std::time::Duration::from_millis(700)); }
    x * 10
}

fn threads_now() -> usize {
    std::fs::read_dir("/proc/self/task").map(|d| d.count()).unwrap_or(0)
}

#[test]
fn pmap_cases() {
    let base = threads_now();
    for n in [0u64, 1, 2, 3, 5, 8, 13] {
        for t in [1usize, 2, 3, 4, 9] {
            // full pass
            let _ = verif::take();
            let out: Vec<u64> = parallel_map(work, 0..n, t).collect();
            trace_line("full", n, t, 0);
            println!("PMAP {{\"kind\":\"full\",\"n\":{},\"threads\":{},\"out\":{:?}}}", n, t, out);
            for f in [quick as fn(u64) -> u64, slow_first as fn(u64) -> u64] {
                let out2: Vec<u64> = parallel_map(f, 0..n, t).collect();
                trace_line("full", n, t, 0);
                println!("PMAP {{\"kind\":\"full\",\"n\":{},\"threads\":{},\"out\":{:?}}}", n, t, out2);
            }
            // early drop after k results
            for k in [0usize, 1, 2, (n as usize) / 2] {
                if k as u64 > n { continue; }
                PULLED.store(0, std::sync::atomic::Ordering::SeqCst);
                let mut it = parallel_map(work, (0..n).inspect(|_| { PULLED.fetch_add(1, std::sync::atomic::Ordering::SeqCst); }), t);
                let mut got = Vec::new();
                for _ in 0..k { if let Some(v) = it.next() { got.push(v); } }
                let pulled_before_drop = PULLED.load(std::sync::atomic::Ordering::SeqCst);
                drop(it);
                let pulled = PULLED.load(std::sync::atomic::Ordering::SeqCst);
                trace_line("drop", n, t, k);
                // `drop` joins every worker; a joined thread may still be listed in /proc/self/task for a moment
                // (the joiner is woken before the kernel unlinks the task), so allow it a grace period
                let mut alive = threads_now().saturating_sub(base);
                let mut waited = 0;
                while alive != 0 && waited < 200 {
                    std::thread::sleep(std::time::Duration::from_millis(5));
                    waited += 1;
                    alive = threads_now().saturating_sub(base);
                }
                println!("PMAP {{\"kind\":\"drop\",\"n\":{},\"threads\":{},\"k\":{},\"out\":{:?},\"threads_alive\":{},\"pulled_before_drop\":{},\"pulled\":{}}}", n, t, k, got, alive, pulled_before_drop, pulled);
            }
        }
    }
    // many worker threads: more than any fixed cap an implementation might have, not a multiple of round numbers
    for (n, t) in [(150u64, 64usize), (150, 65), (150, 72), (200, 99), (150, 128), (70, 65)] {
        let _ = verif::take();
        let out: Vec<u64> = parallel_map(|x| x * 10, 0..n, t).collect();
        trace_line("full", n, t, 0);
        println!("PMAP {{\"kind\":\"full\",\"n\":{},\"threads\":{},\"out\":{:?}}}", n, t, out);
    }
    // a mapped function that panics on one item: every position x thread count; the pass must not end normally short
    for n in [1u64, 4, 7] {
        for t in [1usize, 2, 3, 8] {
            let mut js = vec![0u64, n / 2, n - 1];
            if n as usize > t { js.push(n - t as u64); }
            js.sort(); js.dedup();
            for j in js {
                BOOM.store(j, std::sync::atomic::Ordering::SeqCst);
                let _ = verif::take();
                let got = std::sync::Mutex::new(Vec::new());
                let res = std::panic::catch_unwind(std::panic::AssertUnwindSafe(|| {
                    for v in parallel_map(boom, 0..n, t) { got.lock().unwrap().push(v); }
                }));
                let tr: Vec<String> = verif::take().iter().map(|(c, w)| format!("{}{}", c, w)).collect();
                let out = got.lock().unwrap().clone();
                println!("PMAPFAULT {{\"n\":{},\"threads\":{},\"j\":{},\"raised\":{},\"out\":{:?},\"trace\":\"{}\"}}", n, t, j, res.is_err(), out, tr.join(" "));
            }
        }
    }
    BOOM.store(u64::MAX, std::sync::atomic::Ordering::SeqCst);
    // one item far slower than the others, at the start, in the middle and in the last round: the output is still in input order and complete
    for (n, t, j) in [(8u64, 3usize, 0u64), (8, 3, 4), (9, 3, 7), (6, 2, 3), (10, 4, 9), (7, 3, 6)] {
        STRAGGLER.store(j, std::sync::atomic::Ordering::SeqCst);
        let _ = verif::take();
        let out: Vec<u64> = parallel_map(straggler, 0..n, t).collect();
        trace_line("full", n, t, 0);
        println!("PMAP {{\"kind\":\"full\",\"n\":{},\"threads\":{},\"out\":{:?},\"straggler\":{}}}", n, t, out, j);
    }
    STRAGGLER.store(u64::MAX, std::sync::atomic::Ordering::SeqCst);
    // one long pause of the consumer (an evaluation / checkpoint between two training steps): PMAP_LONG_STALL_MS
    {
        let ms: u64 = std::env::var("PMAP_LONG_STALL_MS").ok().and_then(|v| v.parse().ok()).unwrap_or(10500);
        let (n, t) = (9u64, 2usize);
        let _ = verif::take();
        let mut it = parallel_map(quick, 0..n, t);
        let mut got = Vec::new();
        let mut i = 0;
        while let Some(v) = it.next() {
            got.push(v);
            i += 1;
            if i == 3 { std::thread::sleep(std::time::Duration::from_millis(ms)); }
        }
        drop(it);
        trace_line("full", n, t, 0);
        println!("PMAP {{\"kind\":\"stall\",\"n\":{},\"threads\":{},\"out\":{:?}}}", n, t, got);
    }
    // a consumer that stalls between two calls (a slow training step)
    for (n, t) in [(8u64, 2usize), (6, 3)] {
        let mut it = parallel_map(work, 0..n, t);
        let mut got = Vec::new();
        let mut i = 0;
        while let Some(v) = it.next() {
            got.push(v);
            i += 1;
            if i == 2 { std::thread::sleep(std::time::Duration::from_millis(2600)); }
        }
        println!("PMAP {{\"kind\":\"stall\",\"n\":{},\"threads\":{},\"out\":{:?}}}", n, t, got);
    }
}
